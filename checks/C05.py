"""C05 - programs that break a static rule are always rejected at compile time.

(T) coq/C05/Gen.v: the value analyzer.lua stores in casescope.switchcase_index and the integral type
    table of typedefs.lua (bits, signedness) are re-scraped every run.
(C) programs generated from the mini-AST are pretty-printed into Nelua inside six embeddings and given to
    `nelua --analyze`; accept/reject and file:line + message class are compared with
      - rule_ok     (property oracle: a rule-breaking program must be rejected),
      - analyzer_ok (correspondence of the mechanism model) and the model's offending statements.
"""
import concurrent.futures
import json
import os
import re
import sys

import vlib

sys.path.insert(0, os.path.join(vlib.VERIF, "harness", "C05"))
import c05gen  # noqa: E402

ID = "C05"
ALLOWED_AXIOMS = []
TRUSTED_BASE = [
    "coqc 8.16.1 kernel; vm_compute for the refutation witnesses and the facts about the scraped constants (five `reflexivity` pins: a reverted repair breaks Proofs.v); no native_compute",
    "no axioms: every theorem of coq/C05/Properties.v is 'Closed under the global context'",
    "translator checks/C05.py:gen: regex scrapes of analyzer.lua (visitors.Switch `casescope.switchcase_index = <loop var>`; visitors.Break/Continue calling check_jump_out_of_defer and visitors.Defer marking is_deferblock; visitors.Id's accessibility check standing after the forcesymbol branch; visitors.Goto's is_deferblock test inside its walk) and of the fixed-size IntegralType entries of typedefs.lua; gen() raises when the min/max/is_inrange formulas of types.lua or the followed-by-another-block test of visitors.Fallthrough change shape",
    "extraction: Require Extraction + ExtrOcamlBasic only; coq/C05/driver.ml (parser of the program text, printer of offenders and rule verdicts), ocaml/zutil.ml, OCaml 4.13.1",
    "harness/C05/c05gen.py: program generator, Nelua pretty-printer (statement id = source line), the six embeddings, parser/classifier of the compiler's diagnostics",
    "modelled rather than verified: analyzer.lua/scope.lua/symbol.lua devices are mirrored by hand in coq/C05/Model.v (offenders); tie = accept/reject + position + message class on every generated program",
]
ASSUMPTIONS = [
    "type convertibility of non-scalar arguments and pointer arithmetic rules are outside the model (fixed rule table x embeddings, tests)",
    "the goto rule binds a goto to the nearest enclosing already-declared label, else the nearest enclosing later-declared one",
    "labels: rule_ok (the `_partial` statement) uses Lua 5.4's label rule (a label may not repeat a VISIBLE label); the property's literal reading (unique per function) is rule_labels_unique / rule_ok_full, refuted; the goto clauses (no goto crosses an executed/skipped defer, none leaves a defer block) are proved at full strength",
    "known findings: one exact witness (do ::l1:: end ::l1::) + one class key naming the code site (visitors.Label / Scope:find_label) for generated programs that break ONLY `labels unique per function` and that the mechanism model of the unchanged analyzer also accepts; anything else is a VIOLATION",
    "correspondence is differential testing over generated programs x embeddings, not a proof that model = code",
]

THEOREM_CLASSES = {
    "C05_analyzer_sound_refuted": "refutation",
    "C05_analyzer_sound_partial": "main",
    "C05_labels_unique_per_function_refuted": "refutation",
    "C05_flow_sound": "main",
    "C05_names_sound": "main",
    "C05_labels_goto_defer_sound": "main",
    "C05_switch_case_values_sound": "main",
    "C05_consts_sound": "main",
    "C05_analyzer_complete_flow": "corollary",
    "C05_analyzer_complete_names": "corollary",
    "C05_inrange_is_representability": "corollary",
    "C05_scraped_checks_needed": "tripwire",
}
UNPROVED = [
    "wrongly typed arguments (argument convertibility): rule table rows only (tests)",
    "assignment to a constant through a function DEFINITION: `function v() ... end` over a <const>/<comptime> function-pointer VARIABLE is in the model (FuncAssign, covered by C05_names_sound / C05_analyzer_sound_partial); over a FIELD of a <const> record (`function r.cb() ... end`) it is a rule table row only (the mini-AST has no records)",
    "function definition over a DECLARED function (`local function f() end function f() end`, also after <forwarddecl>): in the model (FuncAssign over a function symbol is accepted, as the funcdeclared/forwarddecl exemption of 1fc2b5c does) only inside the function that declares f. The compiler then `promotes` f to a local variable; that state change is NOT modelled and DFun carries no owner, so rule_names accepts a redefinition reached from a nested function and knows nothing of nested references before/after a redefinition: the generator keeps out of that region, it is judged by four must-reject RAW_TABLE rows only (two of them were defects until 58121c2 = proposed_repairs/06, which checks symbol.usedby against the owning function at the promotion). Redefinition with a different signature is not modelled (zero-parameter functions only)",
    "scraped repair flags: the six pins (gen_*_checked / _fixed / _present) enter the soundness proofs by rewriting; C05_scraped_checks_needed shows for each pinned DECISION FUNCTION (break_ok_pol, recorded_case_pol via fall_errs, forced_errs_pol, agoto_pol, conv_errs_pol, funcdef_errs_pol) a concrete input let through with the check off and refused with it on; it is a decision-level tripwire, NOT a whole-program refutation of soundness under the other policy",
    "arithmetic on pointers or incompatible types: rule table rows only (tests); the mini-AST has no typed expressions",
    "constants that do not fit: integer -> integer constants over the scraped IntegralType table only; float and enum constants are not covered",
    "constant index on an array of length 0 (`[0]T`): the rule follows the compiler's convention and accepts every non-negative index",
    "`error located at the offending construct`: line + message class are compared by the correspondence, no theorem",
    "`produces no executable`: the analyzer's exit status and diagnostic are used, a full compile is not run on rejects",
    "`wherever the construct appears` (polymorphic, generic, preprocessor code): six embeddings and three interpolation styles by testing; the model only has the forced-symbol constructors UseF / AssignF",
    "labels: `unique per function` is REFUTED for the unchanged analyzer (Lua 5.4's visible-label rule is what is proved; witness replayed every run); completeness of the goto/defer check does not hold (deliberately conservative) and is not claimed",
    "the multi-pass type resolution of the analyzer is modelled only as the two passes of goto resolution",
]
MANIFEST_ENTRY = {
    "text": "proof, partial: Coq theorems over an executable model of the analyzer's devices (all programs of the mini-AST, any nesting depth): whatever the analyzer accepts obeys the rules for const/comptime assignment, undeclared names, capture of a local of an enclosing function (also through preprocessor-interpolated symbols), call arity, integer constant range, constant array index, break/continue/fallthrough placement, duplicate case values, duplicate VISIBLE labels, gotos crossing an executed/skipped defer or leaving a defer block; completeness for control flow and names. Full strength is refuted for one label clause (a label repeated in a function when the first is not visible: Lua 5.4's rule, harmless, no repair proposed). Argument types, pointer/incompatible arithmetic, error position, `no executable` and the polymorphic/generic/preprocessor contexts rest on differential testing only (rule table x embeddings).",
    "note": "trusted: Coq 8.16.1 kernel; the hand-written model tied to /repo by Gen.v scrapes (analyzer.lua visitors.Switch/Id/Break/Continue, typedefs.lua) and by differential correspondence (accept/reject, line, message class) over 6 embeddings, which is testing; extraction (ExtrOcamlBasic), OCaml driver, Python generator/printer; depends on checks/C05.py only (no cross-property files)",
    "technique": "machine-checked proof in Coq over an executable model + extracted-model/implementation correspondence",
}

TYPE_NAMES = []


def gen(ctx):
    global TYPE_NAMES
    an = vlib.repo_read("lualib/nelua/analyzer.lua")
    m = re.search(r"function visitors\.Switch\(context, node\)(.*?)\nend\n", an, re.S)
    if not m:
        raise RuntimeError("visitors.Switch not found")
    sw = m.group(1)
    m1 = re.search(r"for (\w+)=1,#casepairs,2 do", sw)
    m2 = re.search(r"casescope\.switchcase_index\s*=\s*([^\n]+)", sw)
    if not (m1 and m2):
        raise RuntimeError("cannot find the case loop / switchcase_index assignment in visitors.Switch")
    idx_expr = m2.group(1).strip()
    fixed = idx_expr == m1.group(1)
    if not fixed and idx_expr != "1":
        raise RuntimeError("switchcase_index is assigned an expression the model does not know: %r" % idx_expr)
    ft = re.search(r"function visitors\.Fallthrough\(context, node\)(.*?)\nend\n", an, re.S)
    if not ft or "casepairs[switchcase_index+2] or elsenode" not in ft.group(1):
        raise RuntimeError("visitors.Fallthrough: the followed-by-another-block test changed")
    jump = all(re.search(r"function visitors\.%s\(context, node\)\n\s*check_jump_out_of_defer\(context, node, '%s', 'is_loop'\)" % (v, v.lower()), an)
               for v in ("Break", "Continue")) and \
        bool(re.search(r"context:get_forked_scope\(blocknode\)\.is_deferblock = true", an)) and \
        bool(re.search(r"local function check_jump_out_of_defer\(context, node, what, targetkind\)\s+for scope in context\.scope:iterate_up_scopes\(\) do\s+if scope\[targetkind\] or scope\.is_function then break end\s+if scope\.is_deferblock then", an))
    mi = re.search(r"function visitors\.Id\(context, node\)(.*?)\nend\n", an, re.S)
    if not mi:
        raise RuntimeError("visitors.Id not found")
    idv = mi.group(1)
    # the accessibility check is a statement of the function body itself (indent 2), after both the
    # lookup branch and the forcesymbol branch
    forced_checked = bool(re.search(r"\n  else\n    symbol = attr\.forcesymbol\n  end\n(?:  [^\n]*\n)*?  if not symbol\.staticstorage and symbol\.scope ~= context\.rootscope and context\.generator ~= 'lua' and\n\s+not symbol:is_directly_accesible_from_scope\(context\.scope\) then\n    node:raisef\(\"attempt to access upvalue", idv))
    mg = re.search(r"function visitors\.Goto\(context, node\)(.*?)\nend\n", an, re.S)
    if not mg:
        raise RuntimeError("visitors.Goto not found")
    goto_chk = bool(re.search(r"for scope in context\.scope:iterate_up_scopes\(\) do\s+if scope\.is_deferblock and scope ~= labelscope then[^\n]*\n\s+node:raisef\(\"`goto` statement cannot jump out of a `defer` block\"\)\s+end\s+if scope\.has_defer then", mg.group(1)))
    mcall = re.search(r"\n( +)funcargtype = wantedtype\n\s*\n\s*-- check again the new type\n( +)wantedtype, err = funcargtype:get_convertible_from_attr\(argattr, false, true, argattrs\)\n +if not wantedtype then\n +node:raisef", an)
    call_rechecks = bool(mcall) and mcall.group(1) == mcall.group(2)
    funcdef_chk = bool(re.search(r"local varsym = visitor_FuncDef_variable\(context, declscope, varnode\)\n  if not declscope and \(varnode\.attr\.const or varnode\.attr\.comptime\) and\n\s+not \(varsym and \(varsym\.forwarddecl or varsym\.funcdeclared\)\) then\n(?:\s*--[^\n]*\n)*\s+varnode:raisef\(\"cannot assign a constant variable\"\)", an))
    td = vlib.repo_read("lualib/nelua/typedefs.lua")
    types = []
    for mm in re.finditer(r"primtypes\.(u?int\d+)\s*=\s*types\.IntegralType\('(\w+)',\s*(\d+)(?:,\s*(true|false))?", td):
        types.append((mm.group(2), int(mm.group(3)) * 8, mm.group(4) != "true"))
    if len(types) < 8:
        raise RuntimeError("integral type table not found in typedefs.lua")
    TYPE_NAMES = [t[0] for t in types]
    tl = vlib.repo_read("lualib/nelua/types.lua")
    if not re.search(r"self\.min = -\(bn\.one\(\) << self\.bitsize\) // 2\s+self\.max = \(\(bn\.one\(\) << self\.bitsize\) // 2\) - 1", tl) or \
       not re.search(r"self\.max =\s+\(bn\.one\(\) << self\.bitsize\) - 1", tl) or \
       not re.search(r"function IntegralType:is_inrange\(value\)\s+return value >= self\.min and value <= self\.max", tl):
        raise RuntimeError("IntegralType min/max/is_inrange formulas changed (model: ty_min/ty_max/is_inrange)")
    txt = ("(* GENERATED by checks/C05.py from /repo (analyzer.lua, typedefs.lua) - do not edit *)\n"
           "From Coq Require Import List ZArith Bool.\nImport ListNotations.\nOpen Scope Z_scope.\n"
           "Definition gen_switchcase_index_is_loop_var : bool := %s.\n" % ("true" if fixed else "false") +
           "Definition gen_break_continue_check_defer_block : bool := %s.\n" % ("true" if jump else "false") +
           "Definition gen_upvalue_check_covers_forced_symbols : bool := %s.\n" % ("true" if forced_checked else "false") +
           "Definition gen_goto_checks_defer_block : bool := %s.\n" % ("true" if goto_chk else "false") +
           "Definition gen_call_rechecks_suggested_type : bool := %s.\n" % ("true" if call_rechecks else "false") +
           "Definition gen_funcdef_checks_const : bool := %s.\n" % ("true" if funcdef_chk else "false") +
           "Definition gen_int_types : list (Z * bool) := [%s].\n" % "; ".join("(%d, %s)" % (b, "true" if s else "false") for _, b, s in types))
    vlib.write_if_changed(os.path.join(vlib.coq_dir(ID), "Gen.v"), txt)
    return {"funcdef_checks_const": funcdef_chk, "call_rechecks_suggested_type": call_rechecks, "goto_checks_defer_block": goto_chk, "upvalue_check_covers_forced_symbols": forced_checked, "break_continue_check_defer_block": jump, "switchcase_index_expr": idx_expr, "case_loop_var": m1.group(1), "int_types": types}


# programs on which the unchanged analyzer violates the FULL-strength rule (rule_ok_full), replayed in every run
# (quick and thorough), keys are exact.  (key, body, what)
WITNESSES = [
    ("label-repeated-in-function: do ::l1:: end ::l1::",
     [('do', [('label', 1)]), ('label', 1)],
     "a label repeated in one function is accepted when the earlier one is not visible (Scope:find_label only walks up the enclosing chain; this is also Lua 5.4's rule; the C label names are made unique, no repair proposed)"),
]
# Any other accepted program that breaks ONLY this full-strength clause, and that the mechanism
# model of the unchanged analyzer also accepts, is reported under the class key of the defect's code site:
CLASS_KEYS = {
    "uniq": "label-repeated-not-visible@analyzer.lua visitors.Label / Scope:find_label (enclosing chain only)",
}


# fixed rule table (outside the mini-AST; tests, not proof): (key, prelude lines, offending line).
# Every entry must be rejected with a located `error:` on the offending line, in each embedding.
RULE_TABLE = [
    ("ptr-arith-add", ["local p: *integer = nilptr"], "local q = p + 1"),
    ("ptr-arith-mul", ["local p: *integer = nilptr"], "local q = p * 2"),
    ("ptr-arith-ptr", ["local p: *integer = nilptr", "local r: *integer = nilptr"], "local q = p - r"),
    ("ptr-arith-div", ["local p: *integer = nilptr"], "local q = 2 / p"),
    ("ptr-arith-div-rhs", ["local p: *integer = nilptr"], "local q = p / 2"),
    ("ptr-arith-pow", ["local p: *integer = nilptr"], "local q = 2 ^ p"),
    ("ptr-arith-idiv", ["local p: *integer = nilptr"], "local q = p // 2"),
    ("ptr-arith-mod", ["local p: *integer = nilptr"], "local q = 2 % p"),
    ("switch-duplicate-case", ["local sv = 1"], "switch sv do case 1 then sv = 2 case 1 then sv = 3 end"),
    ("arith-string-boolean", [], "local q = 'a' + true"),
    ("arith-record", ["local R = @record{x: integer}", "local a: R, b: R"], "local q = a + b"),
    ("arg-type-string-for-integer", ["local function tf(a: integer) return a end"], "tf('x')"),
    ("arg-type-record-for-pointer", ["local R = @record{x: integer}", "local function tf(a: *R) return a.x end", "local v: R"], "tf(1)"),
    ("arg-too-many", ["local function tf(a: integer) return a end"], "tf(1, 2)"),
    ("const-conv-negative-to-unsigned", [], "local q: uint16 = -1"),
    ("const-index-negative", ["local arr: [4]integer"], "local q = arr[-1]"),
    # the offending call is `tf(...)` inside tg (prelude line 2), reached through the instantiation tg(1, 2)
    ("varargs-too-many-arguments", ["local function tf(a: integer) return a end", "local function tg(...: varargs) return tf(...) end"], "local q = tg(1, 2)", (2,)),
]
# whole-file entries: (key, source, lines on which the located error may be reported)
RAW_TABLE = [
    ("funcdef-over-const-variable", "local function a(): integer return 1 end\nlocal fp: function(): integer <const> = a\nfunction fp(): integer return 2 end\nprint(fp())\n", (3,)),
    ("funcdef-over-const-field", "local function a(): integer return 1 end\nlocal R = @record{cb: function(): integer}\nlocal r: R <const> = {cb = a}\nfunction r.cb(): integer return 2 end\nprint(r.cb())\n", (4,)),
    # a redefined local function is a local variable of its function (analyzer.lua "promote to variable"): no other
    # function may reach it.  The mini-AST keeps out of this region (DFun has no owner, promotion is not modelled)
    # (the first two rows were accepted until 58121c2)
    ("redefine-function-from-nested-function", "local function host()\n  local function f() end\n  local function g()\n    function f() end\n  end\n  g() f()\nend\nhost()\n", (4,)),
    ("nested-use-before-function-redefinition", "local function host()\n  local function f() end\n  local function g()\n    f()\n  end\n  function f() end\n  g() f()\nend\nhost()\n", (4, 6)),
    ("nested-use-after-function-redefinition", "local function host()\n  local function f() end\n  function f() end\n  local function g()\n    f()\n  end\n  g()\nend\nhost()\n", (5,)),
    ("function-redefinition-calls-itself", "local function host()\n  local function f() end\n  function f() f() end\n  f()\nend\nhost()\n", (3,)),
    ("comptime-index-in-poly", "local a: [4]integer\nlocal function f(i: integer <comptime>) return a[i] end\nprint(f(4))\n", (2, 3)),
]
TABLE_EMBEDDINGS = {
    "toplevel": (["do"], ["end"]),
    "function": (["local function host()"], ["end", "host()"]),
    "poly": (["local function host(x: auto)"], ["end", "host(1)", "host(true)"]),
}


def from_json(b):
    def blk(x):
        return [st(s) for s in x]

    def st(s):
        t = s[0]
        if t == 'func': return ('func', s[1], list(s[2]), blk(s[3])) + tuple(s[4:])
        if t == 'funcassign': return ('funcassign', s[1], blk(s[2]))
        if t in ('do', 'while', 'repeat', 'for', 'defer'): return (t, blk(s[1]))
        if t == 'if': return ('if', blk(s[1]), blk(s[2]))
        if t == 'switch': return ('switch', [blk(x) for x in s[1]], bool(s[2]), blk(s[3])) + ((list(s[4]),) if len(s) > 4 else ())
        return tuple(s)
    return blk(b)


def analyze(args):
    src, interp = args
    rc, out, err = vlib.nelua(["--analyze", src], interp=interp, timeout=120)
    return c05gen.parse_result(rc, out + "\n" + err)


def correspond(ctx):
    rng = ctx.rng
    driver = vlib.ocaml_build(ID)
    interp = vlib.ensure_interp()
    if not TYPE_NAMES:
        gen(ctx)
    typeinfo = [(int(re.sub(r"\D", "", n)), not n.startswith("u")) for n in TYPE_NAMES]
    usable = [i for i, (b, _) in enumerate(typeinfo) if b <= 64]
    work = ctx.work
    for f in os.listdir(work):
        if f.endswith(".nelua"):
            os.remove(os.path.join(work, f))
    nprog = ctx.scale(900, 15000)

    cases = []     # (stream, key, body, embedding)
    for key, body, _ in WITNESSES:
        for emb in ("toplevel", "function"):
            cases.append(("witness", key, body, emb))
    cp = os.path.join(vlib.VERIF, "corpus", ID, "programs.jsonl")
    if os.path.exists(cp):
        for line in vlib.read(cp).split("\n"):
            line = line.strip()
            if line and not line.startswith("#"):
                j = json.loads(line)
                for emb in j.get("embeddings", c05gen.EMBEDDINGS):
                    cases.append(("corpus+interp" if j.get("interp") else "corpus", None, from_json(j["body"]), emb))
    focuses = ["mixed", "flow", "names", "labels", "consts", "mixed"]
    i = 0
    while len(cases) < nprog:
        focus = focuses[i % len(focuses)]
        g = c05gen.Gen(rng, len(usable), focus)
        g.typeinfo = [typeinfo[k] for k in usable]
        body = None
        if i % 5 in (1, 3):
            body, fam = c05gen.targeted(rng, len(usable))
            if body is not None:
                focus = "targeted-" + fam
        if body is None:
            body = g.program()
        # map local type indices to the table's
        body = remap_types(body, usable)
        i += 1
        emb = c05gen.EMBEDDINGS[i % len(c05gen.EMBEDDINGS)]
        # every reference of the names family is printed plainly in some programs and through a preprocessor
        # interpolation (forced symbol) in others
        if rng.random() < 0.5 and (focus in ("names", "mixed") or focus == "targeted-names"):
            body = c05gen.force_refs(body, rng, 1.0 if rng.random() < 0.5 else 0.5)
            focus += "+interp"
        cases.append((focus, None, body, emb))

    srcs = []
    texts = []
    model_lines = []
    macro_lines = []
    for n, (stream, key, body, emb) in enumerate(cases):
        text, mtxt, ml_ = c05gen.print_program(body, emb, TYPE_NAMES, c05gen.INTERP_STYLES[n % 3])
        macro_lines.append(ml_)
        p = os.path.join(work, "c%05d.nelua" % n)
        with open(p, "w") as f:
            f.write(text)
        srcs.append(p)
        texts.append(text)
        model_lines.append(mtxt)
    rc, mout, merr = vlib.sh([driver], input="\n".join(model_lines) + "\n", timeout=1800)
    ml = mout.split("\n")
    if rc != 0 or len(ml) < len(cases):
        raise RuntimeError("model driver failed: rc=%s %s" % (rc, merr[-400:]))
    with concurrent.futures.ThreadPoolExecutor(max_workers=4) as ex:
        results = list(ex.map(analyze, [(s, interp) for s in srcs]))

    # ---- fixed rule table
    table_cases = []
    for entry in RULE_TABLE:
        key, pre, bad = entry[:3]
        also = entry[3] if len(entry) > 3 else ()
        for emb, (head, tail) in TABLE_EMBEDDINGS.items():
            lines = list(head) + ["  " + l for l in pre] + ["  " + bad] + list(tail)
            badline = len(head) + len(pre) + 1
            pth = os.path.join(work, "t_%s_%s.nelua" % (key, emb))
            with open(pth, "w") as f:
                f.write("\n".join(lines) + "\n")
            table_cases.append((key, emb, pth, (badline,) + tuple(len(head) + i for i in also)))
    for key, src, okl in RAW_TABLE:
        pth = os.path.join(work, "t_%s_raw.nelua" % key)
        with open(pth, "w") as f:
            f.write(src)
        table_cases.append((key, "raw", pth, okl))
    with concurrent.futures.ThreadPoolExecutor(max_workers=4) as ex:
        table_res = list(ex.map(analyze, [(t[2], interp) for t in table_cases]))
    table_fail = 0
    for (key, emb, pth, badline), res in zip(table_cases, table_res):
        ok = res[0] == "reject" and res[1] in badline
        if not ok:
            table_fail += 1
            what = {"accept": "is accepted by the analyzer", "crash": "crashes the compiler without a located error",
                    "reject": "is rejected at line %s instead of the offending line %s" % (res[1] if len(res) > 1 else "?", badline)}[res[0]]
            ctx.violation("rule-table:%s@%s" % (key, emb), "oracle",
                          "rule table entry %s in embedding %s %s: %s" % (key, emb, what, pth),
                          detail={"source_file": pth, "source": vlib.read(pth), "analyzer": res,
                                  "replay": "nelua --analyze %s" % pth})

    n_full_only = 0
    dist = {}
    kinds = {}
    n_acc = n_rej = 0
    nontrivial = set()
    oracle_fail = []
    mism = []
    posmiss = []
    crashes = []
    per_emb = {}
    for (stream, key, body, emb), src, mline, res, mlines in zip(cases, srcs, ml, results, macro_lines):
        parts = mline.split("\t")
        if len(parts) != 2:
            raise RuntimeError("model driver output: %r" % mline[:200])
        offs = [(int(a.split(":")[0]), a.split(":")[1]) for a in parts[0].split()]
        rules = parts[1].split()
        rule_ok = rules[0] == "1"
        model_ok = not offs
        dist[stream] = dist.get(stream, 0) + 1
        per_emb[emb] = per_emb.get(emb, 0) + 1
        if res[0] == "crash":
            crashes.append((src, res[1]))
            continue
        impl_ok = res[0] == "accept"
        if impl_ok:
            n_acc += 1
        else:
            n_rej += 1
            kinds[res[3]] = kinds.get(res[3], 0) + 1
        if not rule_ok:
            nontrivial.add(model_lines[srcs.index(src)] if False else mline + emb)
        size = len(parts[0]) + len(src)
        full_ok = rules[6] == "1"
        if impl_ok and rule_ok and not full_ok:
            n_full_only += 1
            if key:
                k = key
            elif model_ok and rules[7] == "0" and rules[8] == "1":
                k = CLASS_KEYS["uniq"]
            else:
                k = "prog:%s@%s" % (body_key(body), emb)
            oracle_fail.append((len(repr(body)), k, src, emb, rules, offs))
        elif impl_ok and not rule_ok:
            k = key or "prog:%s@%s" % (body_key(body), emb)
            oracle_fail.append((len(repr(body)), k, src, emb, rules, offs))
        elif impl_ok != model_ok:
            mism.append((len(repr(body)), src, emb, res, offs, stream))
        elif not impl_ok:
            # a forced reference to an unknown name is `nil` for the preprocessor: the diagnostic is about the nil
            # value; a reference made through the macros zuse/zasg is reported on the macro's body line
            def same(ln, kd):
                line_ok = ln == res[1] or (ln in mlines and mlines[ln] == res[1])
                kind_ok = kd == res[3] or (kd == "undeclared" and res[3] in ("nilarg", "constassign") and "+interp" in stream)
                return line_ok and kind_ok
            if not any(same(ln, kd) for ln, kd in offs):
                posmiss.append((len(repr(body)), src, emb, res, offs))

    oracle_fail.sort(key=lambda x: x[0])
    seen = set()
    shown = 0
    for (sz, k, src, emb, rules, offs) in oracle_fail:
        if k in seen:
            continue
        seen.add(k)
        if shown >= 6 and not any(kf.get("key") == k for kf in ctx.known):
            continue
        shown += 1
        ctx.violation(k, "oracle",
                      "a program that breaks a static rule (rule_ok flow/names/labels/consts/switch | full labels-unique goto-stays-in-defer = %s) is accepted by `nelua --analyze` in embedding %s: %s" % (" ".join(rules[1:]), emb, src),
                      detail={"source_file": src, "source": vlib.read(src), "embedding": emb, "rule_verdicts": rules,
                              "model_offenders": offs, "replay": "nelua --analyze %s  (exit status 0 = accepted)" % src})
    for (sz, src, emb, res, offs, stream) in sorted(mism)[:4]:
        ctx.violation("model-mismatch:verdict", "correspondence",
                      "mechanism model and analyzer disagree on %s (%s): analyzer %s, model offenders %s" % (src, emb, res[:4], offs),
                      detail={"source_file": src, "source": vlib.read(src), "analyzer": res, "model_offenders": offs,
                              "no_longer_checks": "correspondence stream C05/%s" % stream}, failing_input=False)
    for (sz, src, emb, res, offs) in sorted(posmiss)[:4]:
        ctx.violation("model-mismatch:position", "correspondence",
                      "the analyzer's diagnostic (%s:%s %s) is not at a statement the model flags with that rule (%s) in %s (%s)" % (res[1], res[2], res[3], offs, src, emb),
                      detail={"source_file": src, "source": vlib.read(src), "analyzer": res, "model_offenders": offs,
                              "no_longer_checks": "correspondence stream C05/position"}, failing_input=False)
    for src, txt in crashes[:3]:
        ctx.violation("analyzer-crash:%s" % os.path.basename(src), "harness",
                      "nelua --analyze neither accepted nor printed a diagnostic for %s: %s" % (src, txt[-300:]),
                      detail={"source": vlib.read(src), "output": txt}, failing_input=False)
    return {
        "evaluations": len(cases),
        "distinct_nontrivial": len(nontrivial),
        "rule": "cases = fixed witness of the known defect (2 embeddings) + corpus + random programs of the mini-AST (focus mixed/flow/names/labels/consts) each printed in one of 6 embeddings (round robin); non-trivial = distinct (program, embedding) that break at least one rule",
        "samples": [model_lines[0][:200], model_lines[len(cases) // 2][:200], model_lines[-1][:200]],
        "distribution": {"streams": dist, "embeddings": per_emb, "accepted": n_acc, "rejected": n_rej, "diagnostic_kinds": kinds,
                         "function_redefinitions": sum(1 for x in texts if re.search(r"(?m)^\s*function f\d+\(\)", x)),
                         "forward_declarations": sum(1 for x in texts if "<forwarddecl>" in x)},
        "oracle_failures": len(oracle_fail),
        "accepted_breaking_only_the_full_label_rules": n_full_only,
        "verdict_mismatches": len(mism),
        "position_mismatches": len(posmiss),
        "crashes": len(crashes),
        "rule_table_entries": len(table_cases),
        "rule_table_failures": table_fail,
        "traces_validated_against_impl": len(cases),

    }


def remap_types(b, usable):
    out = []
    for s in b:
        t = s[0]
        if t == 'conv': out.append(('conv', usable[s[1]], s[2]) + tuple(s[3:]))
        elif t == 'func': out.append(('func', s[1], s[2], remap_types(s[3], usable)) + tuple(s[4:]))
        elif t == 'funcassign': out.append(('funcassign', s[1], remap_types(s[2], usable)))
        elif t in ('do', 'while', 'repeat', 'for', 'defer'): out.append((t, remap_types(s[1], usable)))
        elif t == 'if': out.append(('if', remap_types(s[1], usable), remap_types(s[2], usable)))
        elif t == 'switch': out.append(('switch', [remap_types(x, usable) for x in s[1]], s[2], remap_types(s[3], usable)) + tuple(s[4:]))
        else: out.append(s)
    return out


def body_key(b):
    return json.dumps(b, separators=(",", ":"))
