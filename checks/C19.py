"""C19 - the bundled rpmalloc-derived allocator (src/srpmalloc/srpmalloc.c) of the compiler's
interpreter keeps live blocks intact.

(T) every #define the model is parametric in is scraped from srpmalloc.c (plus L_alloc's
    alignment/flags from src/lua/lua.c and -DLUA_USE_RPMALLOC from the Makefile) into coq/C19/Gen.v.
(C) harness/C19/harness.c is compiled against REPO/src/srpmalloc/srpmalloc.c and issues exactly
    L_alloc's calls from generated histories with a shadow map (the property oracle, in C);
    a traced part of every run is replayed through the extracted model (coq/C19/driver), which must
    predict every returned block (span supplied by the environment only when a new span is
    needed), every usable size, the size-class table and the in-place/move decision."""
import os
import re
import vlib

ID = "C19"
ALLOWED_AXIOMS = []
THEOREM_CLASSES = {
    "C19_small_class_fits": "main", "C19_medium_class_fits": "main", "C19_block_geometry": "main",
    "C19_blocks_disjoint": "main", "C19_blocks_of_different_spans_disjoint": "corollary",
    "C19_large_fits": "main", "C19_large_huge_fit": "main", "C19_realloc_inplace_fits": "main", "C19_realloc_copy": "main",
    "C19_class_alloc_safe": "main", "C19_class_free_safe": "main", "C19_used_count_exact": "corollary",
    "C19_span_machine_history": "main", "C19_allocate_fits": "main",
    "C19_spans_disjoint_across_reuse": "main", "C19_finalize_unmaps_everything": "main",
    "C19_lalloc_history_ownership": "main", "C19_blocks_of_different_classes_disjoint": "corollary",
    "C19_small_block_disjoint_from_big": "corollary", "C19_big_blocks_disjoint": "corollary",
    "C19_combined_history_small_medium": "main", "C19_combined_empty": "corollary", "C19_huge_guard_needed": "refutation",
    "C19_combined_supply_failed_only_without_supply": "main", "C19_combined_fresh_mapping_is_supply": "corollary",
    "C19_combined_history_no_bad_call": "main", "C19_combined_free_never_fails": "main", "C19_combined_ghost_empty": "corollary",
    "C19_combined_projects_to_lalloc": "main", "C19_combined_history_ownership": "corollary",
    "C19_span_layer_supplies_accepted_span": "corollary", "C19_heap_allocate_not_refused_partial": "corollary", "C19_contents_preserved": "main",
}
UNPROVED = [
    "'pairwise disjoint while live' as ONE statement over L_alloc histories: proved in three pieces - within a class over any alloc/free history (C19_span_machine_history), across classes and against large/huge blocks from the ownership invariant over any l_alloc history (C19_lalloc_history_ownership + corollaries), geometry (C19_blocks_disjoint) - but the glue 'the class-level live list is the projection of the heap-level live list' is not proved, so no single theorem quantifies over mixed histories with a ghost set of live blocks",
    "'contents preserved across reallocation': C19_contents_preserved is about an abstract memory and one memcpy; that l_alloc performs exactly this copy (and the in-place case writes nothing) is read from the code, the fill patterns of the harness test it",
    "'returns all memory to the OS when finalized': proved for the span-layer MODEL (C19_finalize_unmaps_everything); the model follows srpmalloc.c operation by operation on the span-snapshot streams (state read from the allocator's caches, reserve, class lists and span headers after every call), but rpmalloc_finalize itself is compared only through the map/unmap balance, not replayed",
    "the combined heap + span-layer machine (cstep/crun: spans served by the span-layer model, no oracle) covers SMALL/MEDIUM allocations and frees only. Over every such history: coupling invariant preserved and never CErrOracle (C19_combined_history_small_medium); CSupplyFailed on an allocation only when the history names a supply the span layer does not have, and a fresh non-overlapping mapping always is one - i.e. only when the OS has no room (C19_combined_supply_failed_only_without_supply, C19_combined_fresh_mapping_is_supply); never CBadCall when every free names a block that is live at that point - per-class class_inv against ghost live lists, a repeated free is outside the hypothesis (C19_combined_history_no_bad_call); every successful history is the lrun history of the corresponding L_alloc calls, so C19_lalloc_history_ownership applies to it (C19_combined_projects_to_lalloc, C19_combined_history_ownership). Still open there: these are four theorems with separate hypotheses (cinv / supply_ok / linv+hist_ok / op_ok1), not one invariant; a FREE of a live block from a state satisfying cinv and linv is answered CDone - never CSupplyFailed, CBadCall or CRefusedByHeap - with both invariants preserved (C19_combined_free_never_fails), but cinv and linv are still two invariants carried side by side and no single history theorem maintains both; supply_ok must be assumed per step (the history chooses the supply, the allocator's own order cache > reserve > map is not modelled). Not in the combined machine at all: large and huge requests (multi-span objects, reuse of a cached M-span for N, spans kept as the reserve, huge blocks mapped outside the span layer) and reallocations (in place, and moves, which can change regime) - for those C19_lalloc_history_ownership still excludes an in-use span by construction (CErrOracle -> lrun = None) and C19_heap_allocate_not_refused_partial (a one-step corollary, not a history theorem) gives the one-step argument. All three models are run against srpmalloc.c operation by operation: the oracle-driven heap model on the block trace, the span model on span-layer snapshots, and the extracted combined machine on small/medium alloc/free histories (its answers and its whole span component after every change must equal the allocator's); the span-layer invariant is evaluated on the allocator's own state after every operation",
    "span caches' size limits and reuse order; the global reserve (unused when span_map_count <= heap_reserve_count and page size <= span size)",
    "the OS returning span-aligned, non-overlapping mappings (checked at run time by the map hook)",
    "multi-threading / deferred frees (the interpreter is single threaded)",
]
MANIFEST_ENTRY = {
    "text": "proof, partial: theorems cover, for the model of srpmalloc.c as L_alloc uses it, 16-byte alignment and containment of every block, usable size >= requested in all four regimes and across realloc (every 64-bit size), the per-class span machine over any alloc/free history (partition of indices, no double hand-out, exact used_count), span ownership over any history of L_alloc calls (different classes / large / huge blocks never share a span), the span layer over any history (no overlap across cache reuse, finalize unmaps every region; this model is replayed against the allocator's span bookkeeping operation by operation), the combined heap + span-layer machine for small/medium allocations and frees (no oracle: a span is never handed out twice; supply failure only when the OS has no room; no internal error when every free names a live block; a free of a live block never fails; projects onto the L_alloc history machine; the extracted machine is replayed against the allocator), one-step acceptance of span-layer spans for large/huge and the copy performed by a moving realloc. Not one end-to-end theorem: the pieces are joined by stated glue (UNPROVED); content preservation and return of memory in the real allocator rest on the C harness (fill patterns, map/unmap balance).",
    "note": "trusted: Coq kernel, hand-written models of srpmalloc.c (tied by regenerated #defines/guards, by op-by-op trace correspondence of the heap model against the real allocator, and by observable consequences for the span layer), extraction, C harness (includes srpmalloc.c and the text of L_alloc from lua.c), gcc/clang+ASan/UBSan; assumes span-aligned non-overlapping OS mappings, single thread; reads src/lua/lua.c and the Makefile besides srpmalloc.c",
    "technique": "machine-checked proof in Coq over executable models + regenerated parameters + extracted-model/implementation trace correspondence; shadow-map property oracle in C",
}
TRUSTED_BASE = [
    "coqc 8.16.1 kernel (vm_compute used for facts about the regenerated constants and the finite size-class table; no native_compute)",
    "no axioms: every theorem of coq/C19/Properties.v is 'Closed under the global context'",
    "translator checks/C19.py:gen (regex scrape of the #defines of srpmalloc.c, the rpaligned_realloc call of lua.c, LUA_USE_RPMALLOC in the Makefile; constant expressions translated token by token)",
    "extraction: Require Extraction + ExtrOcamlBasic only; Z/positive/nat stay Coq inductives; no Extract Constant of our own",
    "ocaml/zutil.ml + coq/C19/driver.ml (trace text <-> extracted Z), harness/C19/harness.c (shadow map, fill patterns, occupancy bitmaps, map/unmap accounting), gcc/clang, OCaml 4.13.1",
    "modelled rather than verified: srpmalloc.c is mirrored by hand in coq/C19/Model.v; the tie is the regenerated constants plus the trace correspondence run on every check",
]
ASSUMPTIONS = [
    "the OS returns span-aligned (64 KiB) mappings to rpmalloc (checked at run time by the harness hook, not proved)",
    "the span caches / reserve bookkeeping never hand a span to a size class while it is still in use elsewhere: this is the model's oracle precondition (ErrOracle), checked on every traced operation, not proved",
    "single thread (the interpreter is single threaded): the deferred free list is always empty",
    "correspondence is differential testing over generated histories, not a proof that model = code",
]

SIMPLE = ["SMALL_GRANULARITY", "SMALL_GRANULARITY_SHIFT", "SMALL_CLASS_COUNT", "MEDIUM_GRANULARITY",
          "MEDIUM_GRANULARITY_SHIFT", "MEDIUM_CLASS_COUNT", "LARGE_CLASS_COUNT", "SPAN_HEADER_SIZE"]
DERIVED = ["SMALL_SIZE_LIMIT", "SIZE_CLASS_COUNT", "MEDIUM_SIZE_LIMIT", "LARGE_SIZE_LIMIT"]
RENAME = {"_memory_span_size": "SPAN_SIZE", "_memory_default_span_size": "SPAN_SIZE",
          "_memory_span_size_shift": "SPAN_SIZE_SHIFT", "_memory_default_span_size_shift": "SPAN_SIZE_SHIFT"}


def c_expr_to_coq(expr, known):
    """Translate a C constant expression made of integers, identifiers, + - * and parentheses."""
    toks = re.findall(r"[A-Za-z_][A-Za-z_0-9]*|\d+[uUlL]*|[-+*()]|\S", expr)
    out = []
    for t in toks:
        if re.fullmatch(r"\d+[uUlL]*", t):
            out.append(re.match(r"\d+", t).group(0))
        elif re.fullmatch(r"[A-Za-z_][A-Za-z_0-9]*", t):
            t = RENAME.get(t, t)
            if t not in known:
                raise RuntimeError("constant expression %r uses unknown name %s" % (expr, t))
            out.append(t)
        elif t in "+-*()":
            out.append(t)
        else:
            raise RuntimeError("cannot translate constant expression %r (token %r)" % (expr, t))
    return " ".join(out)


def scrape(ctx=None):
    src = vlib.repo_read("src/srpmalloc/srpmalloc.c")
    defs = {}
    for m in re.finditer(r"^[ \t]*#[ \t]*define[ \t]+([A-Za-z_][A-Za-z_0-9]*)[ \t]+(.+?)[ \t]*(?://.*)?$", src, re.M):
        defs.setdefault(m.group(1), m.group(2).strip())
    need = SIMPLE + DERIVED + ["_memory_default_span_size", "_memory_default_span_size_shift", "_memory_span_size", "_memory_span_size_shift"]
    for n in need:
        if n not in defs:
            raise RuntimeError("srpmalloc.c: #define %s not found" % n)
    if defs["_memory_span_size"] != "_memory_default_span_size" or defs["_memory_span_size_shift"] != "_memory_default_span_size_shift":
        raise RuntimeError("span size is no longer hard-wired to the default: %r" % defs["_memory_span_size"])
    lines = []
    known = set()
    got = {}
    for n in SIMPLE:
        if not re.fullmatch(r"\d+", defs[n]):
            raise RuntimeError("#define %s is not a plain integer: %r" % (n, defs[n]))
        lines.append("Definition %s : Z := %s." % (n, defs[n]))
        known.add(n)
        got[n] = defs[n]
    lines.append("Definition SPAN_SIZE : Z := %s." % c_expr_to_coq(defs["_memory_default_span_size"], known))
    known.add("SPAN_SIZE")
    lines.append("Definition SPAN_SIZE_SHIFT : Z := %s." % c_expr_to_coq(defs["_memory_default_span_size_shift"], known))
    known.add("SPAN_SIZE_SHIFT")
    got["SPAN_SIZE"] = defs["_memory_default_span_size"]
    got["SPAN_SIZE_SHIFT"] = defs["_memory_default_span_size_shift"]
    for n in DERIVED:
        lines.append("Definition %s : Z := %s." % (n, c_expr_to_coq(defs[n], known)))
        known.add(n)
        got[n] = defs[n]
    m = re.search(r"size_t\s+min_span_size\s*=\s*(\d+)\s*;", src)
    if not m:
        raise RuntimeError("srpmalloc.c: page size lower clamp (min_span_size) not found")
    lines.append("Definition MIN_PAGE_SIZE : Z := %s." % m.group(1))
    got["MIN_PAGE_SIZE"] = m.group(1)
    m = re.search(r"#if UINTPTR_MAX > 0xFFFFFFFF\s*max_page_size\s*=\s*([^;]+);", src)
    if not m:
        raise RuntimeError("srpmalloc.c: page size upper clamp (max_page_size, 64-bit branch) not found")
    lines.append("Definition MAX_PAGE_SIZE : Z := %s." % c_expr_to_coq(m.group(1), known))
    got["MAX_PAGE_SIZE"] = m.group(1).strip()
    # _rpmalloc_allocate_huge: requests whose size + header (rounded up to a page) overflow size_t are refused
    mh = re.search(r"_rpmalloc_allocate_huge\(heap_t\* heap, size_t size\) \{(.*?)\n\}", src, re.S)
    if not mh:
        raise RuntimeError("srpmalloc.c: _rpmalloc_allocate_huge not found")
    guard = bool(re.search(r"if \(size > \(\(size_t\)-1\) - SPAN_HEADER_SIZE - _memory_page_size\)\s*return 0;\s*size \+= SPAN_HEADER_SIZE;", mh.group(1)))
    if not guard and not re.search(r"_rpmalloc_heap_cache_adopt_deferred\(heap, 0\);\s*size \+= SPAN_HEADER_SIZE;", mh.group(1)):
        raise RuntimeError("srpmalloc.c: _rpmalloc_allocate_huge changed shape")
    lines.append("Definition HUGE_OVERFLOW_GUARD : bool := %s." % ("true" if guard else "false"))
    got["HUGE_OVERFLOW_GUARD"] = guard
    lua = vlib.repo_read("src/lua/lua.c")
    m = re.search(r"static\s+void\s*\*\s*L_alloc\s*\(.*?\n\}", lua, re.S)
    if not m:
        raise RuntimeError("lua.c: L_alloc not found")
    body = m.group(0)
    m2 = re.search(r"rpaligned_realloc\s*\(\s*ptr\s*,\s*(\d+)\s*,\s*nsize\s*,\s*osize\s*,\s*(\d+)\s*\)", body)
    if not m2 or not re.search(r"if\s*\(\s*nsize\s*==\s*0\s*\)\s*\{\s*rpfree\s*\(\s*ptr\s*\)", body):
        raise RuntimeError("lua.c: L_alloc no longer has the shape nsize==0 -> rpfree(ptr); else rpaligned_realloc(ptr,A,nsize,osize,F)")
    got["L_alloc_source"] = body
    lines.append("Definition LALLOC_ALIGN : Z := %s." % m2.group(1))
    lines.append("Definition LALLOC_FLAGS : Z := %s." % m2.group(2))
    got["LALLOC_ALIGN"] = m2.group(1)
    got["LALLOC_FLAGS"] = m2.group(2)
    mk = vlib.repo_read("Makefile")
    if not re.search(r"LUA_DEFS\s*\+=\s*-DLUA_USE_RPMALLOC", mk):
        raise RuntimeError("Makefile no longer defines LUA_USE_RPMALLOC")
    got["LUA_USE_RPMALLOC"] = "Makefile: yes (unless NO_RPMALLOC)"
    return lines, got


def gen(ctx):
    lines, got = scrape(ctx)
    txt = ("(* GENERATED by checks/C19.py from /repo (src/srpmalloc/srpmalloc.c, src/lua/lua.c) - do not edit *)\n"
           "From Coq Require Import ZArith.\nLocal Open Scope Z_scope.\n" + "\n".join(lines) + "\n")
    vlib.write_if_changed(os.path.join(vlib.coq_dir(ID), "Gen.v"), txt)
    return got


# --------------------------------------------------------------------------
# correspondence + property oracle
# --------------------------------------------------------------------------

HARNESS = os.path.join(vlib.VERIF, "harness", ID, "harness.c")


def build_harness(ctx, cc="gcc", flags=("-O2",), tag="gcc"):
    src_c = os.path.join(vlib.REPO, "src", "srpmalloc", "srpmalloc.c")
    src_h = os.path.join(vlib.REPO, "src", "srpmalloc", "srpmalloc.h")
    # L_alloc itself is taken from REPO/src/lua/lua.c (the function text, verbatim) - the harness does not re-implement it
    _, got = scrape(ctx)
    lalloc_h = os.path.join(ctx.work, "lalloc_from_lua_c.h")
    vlib.write_if_changed(lalloc_h, "/* GENERATED from %s/src/lua/lua.c: the text of L_alloc, verbatim */\n%s\n" % (vlib.REPO, got["L_alloc_source"]))
    key = vlib.sha_files([HARNESS, src_c, src_h, lalloc_h])[:16] + "-" + tag
    exe = os.path.join(ctx.work, "harness-" + key)
    if os.path.exists(exe):
        return exe, None
    for f in os.listdir(ctx.work):      # prune old builds of this flavour
        if f.startswith("harness-") and f.endswith("-" + tag):
            try:
                os.remove(os.path.join(ctx.work, f))
            except OSError:
                pass
    cmd = [cc] + list(flags) + ["-g", "-DSRPMALLOC_C=\"%s\"" % src_c, "-DLALLOC_H=\"%s\"" % lalloc_h,
                                "-DLALLOC_ALIGN=%s" % got["LALLOC_ALIGN"], "-DLALLOC_FLAGS=%s" % got["LALLOC_FLAGS"], HARNESS, "-o", exe + ".tmp"]
    rc, out, err = vlib.sh(cmd, timeout=600)
    if rc != 0:
        return None, (out + err)[-3000:]
    os.rename(exe + ".tmp", exe)
    return exe, None


def run_harness(exe, text, trace=True, timeout=1800, env=None, alarm=None):
    e = dict(env or {})
    e["C19_ALARM"] = str(alarm or max(60, timeout - 30))
    return vlib.sh([exe] + (["trace"] if trace else []), input=text, timeout=timeout, env=e)


class Stream:
    """A named command file for the harness."""

    def __init__(self, name, lines, replay):
        self.name = name
        self.lines = lines
        self.replay = replay


def py_class_oracle(size, table, K):
    """Theorem right-hand sides, in exact integer arithmetic, for a fresh request of `size` bytes:
    the smallest thing that may be returned."""
    if size <= K["SMALL_SIZE_LIMIT"]:
        return "small"
    if size <= K["medium_size_limit"]:
        return "medium"
    if size <= K["LARGE_SIZE_LIMIT"]:
        return "large"
    return "huge"


def targeted_ops(rng, table, K):
    """Histories aimed at the case splits of the model / proofs."""
    ops = []
    slot = [0]

    def new_slot():
        slot[0] += 1
        return slot[0]

    def A(s, n, tag=0):
        ops.append("A %d %d %d" % (s, n, tag))

    span, hdr = K["SPAN_SIZE"], K["SPAN_HEADER_SIZE"]
    sizes = sorted({bs for (bs, bc, idx) in table if bs})
    # (a) each class boundary: bs-1, bs, bs+1, alloc/realloc-in-place/free
    for bs in sizes:
        for d in (-1, 0, 1):
            if bs + d > 0:
                s = new_slot()
                A(s, bs + d, rng.randrange(10))
                A(s, max(1, bs + d - 1))
                A(s, bs + d + 1)
                A(s, 0)
    # (b) fill whole spans of some classes, free in patterns, refill (page-wise free-list initialisation,
    #     span-local free list swap, release of an emptied span)
    classes = [(bs, bc) for (bs, bc, idx) in table if bs]
    picks = rng.sample(classes[:65], 5) + rng.sample(classes[65:], 3) + [classes[-1], classes[1]]
    for bs, bc in picks:
        ss = [new_slot() for _ in range(bc + 3)]
        for s in ss:
            A(s, bs - rng.randrange(0, min(bs, 15)))
        order = ss[:]
        rng.shuffle(order)
        for s in order[: len(order) // 2]:
            A(s, 0)
        for s in order[: len(order) // 2 + 2]:
            A(s, bs)
        rng.shuffle(order)
        for s in order:
            A(s, 0)
    # (c) growth/shrink ladders through all four regimes
    for start in (1, 7, 100):
        s = new_slot()
        n = start
        A(s, n, 4)
        while n < K["LARGE_SIZE_LIMIT"] + 2 * 1024 * 1024:
            n = n + n // 2 + 1
            A(s, n)
        while n > 1:
            n = n // 2
            A(s, n)
        A(s, 0)
    # (d) large blocks: in-place decision boundaries
    for k in (1, 2, 3, 5, 17, K["LARGE_CLASS_COUNT"]):
        base = k * span - hdr
        for d in (-1, 0, 1):
            s = new_slot()
            if base + d > K["medium_size_limit"]:
                A(s, base + d)
                for t in (base + d - 1, (base + d) // 2 + hdr, (base + d) // 2 - hdr - 1, (k - 1) * span - hdr if k > 1 else 1,
                          k * span - hdr, k * span - hdr + 1, (k + 1) * span - hdr):
                    if t > 0:
                        A(s, t)
                A(s, 0)
    # (e) huge blocks: page-count decision
    page = K["page_size"]
    for extra in (1, page, 3 * page + 5, 64 * page):
        s = new_slot()
        n = K["LARGE_SIZE_LIMIT"] + extra
        A(s, n)
        A(s, n + 1)
        A(s, n - page)
        A(s, n // 2 + page)
        A(s, n // 2 - 2 * page)
        A(s, K["LARGE_SIZE_LIMIT"])
        A(s, K["LARGE_SIZE_LIMIT"] + 1)
        A(s, 0)
    # (f) huge block grown to sizes around the end of its last backing page (usable must stay >= request)
    for n in (5000000, K["LARGE_SIZE_LIMIT"] + 12345):
        s = new_slot()
        A(s, n)
        pages = (n + hdr + page - 1) // page
        for t in (pages * page - hdr - 1, pages * page - hdr, pages * page - hdr + 1, pages * page, pages * page + 1,
                  (pages + 1) * page - hdr, n):
            A(s, t)
        A(s, 0)
    # (f') one fresh huge block per target: an in-place grow within the last backing page, in particular to a
    #      size that is an exact multiple of the page size, must leave usable_size >= requested
    for n in (5000000, K["LARGE_SIZE_LIMIT"] + 1, K["LARGE_SIZE_LIMIT"] + 3 * page + 77):
        pages = (n + hdr + page - 1) // page
        for t in (pages * page, pages * page - 1, pages * page - hdr, pages * page - hdr + 1, (pages - 1) * page, (pages + 1) * page, pages * page + page - hdr):
            s = new_slot()
            A(s, n)
            A(s, t)
            A(s, 0)
    # (g) large-span cache reuse: free an M-span block, then request N spans with 3 <= N < M <= 1.5 N
    #     (served from the M-span cache with span_count M), several times, then finalize (F) and start
    #     a second allocator lifetime doing the same: the map/unmap balance is checked at every F
    for life in range(2):
        for (M, N) in ((6, 4), (4, 3), (9, 6), (30, 20), (K["LARGE_CLASS_COUNT"], (2 * K["LARGE_CLASS_COUNT"] + 2) // 3)):
            if not (3 <= N < M <= N + N // 2):
                continue
            s1, s2, s3 = new_slot(), new_slot(), new_slot()
            A(s1, M * span - hdr)
            A(s2, 100)
            A(s1, 0)
            A(s3, N * span - hdr - rng.randrange(0, 1000))
            A(s3, N * span - hdr + 1)            # still inside the M-span run: in place or moved, must fit
            A(s3, M * span - hdr)
            A(s1, (M - 1) * span)
            if life == 0:
                A(s3, 0)
        ops.append("F")
    return ops


def parse_snapshots(out):
    """Span-layer snapshots printed by the harness after 'P': list of (op, regions{base:(total,remaining)}, objs{start:(count,master,status)})."""
    snaps, cur = [], None
    for line in out.split("\n"):
        if line.startswith("SS "):
            cur = (int(line.split()[1]), {}, {})
        elif cur is not None and line.startswith("SR "):
            w = line.split()
            cur[1][int(w[1], 16)] = (int(w[2]), int(w[3]))
        elif cur is not None and line.startswith("SO "):
            w = line.split()
            cur[2][int(w[1], 16)] = (int(w[2]), int(w[3], 16), w[4])
        elif cur is not None and line.startswith("SG "):
            cur[2][-1] = ("global-reserve", line)
        elif line == "SE" and cur is not None:
            snaps.append(cur)
            cur = None
    return snaps


def span_invariant(snap):
    """Theorem right-hand side (sinv of ProofsSpans.v) evaluated on the IMPLEMENTATION's state: spans pairwise disjoint,
    each inside its region, a region's remaining_spans = number of spans of it the allocator still knows."""
    op, regs, objs = snap
    bad = []
    iv = sorted((s, s + c) for s, (c, m, st) in objs.items() if s >= 0)
    for (a, b), (a2, b2) in zip(iv, iv[1:]):
        if a2 < b:
            bad.append("spans %x+%d and %x overlap" % (a, b - a, a2))
    owned = {}
    for s, (cnt, m, st) in objs.items():
        if s < 0:
            continue
        owned[m] = owned.get(m, 0) + cnt
        if m not in regs:
            bad.append("span %x names master %x which is not a live mapping" % (s, m))
        elif not (m <= s and s + cnt <= m + regs[m][0]) or cnt < 1:
            bad.append("span %x+%d is not inside its mapping %x+%d" % (s, cnt, m, regs[m][0]))
    for base, (total, rem) in regs.items():
        if rem != owned.get(base, 0):
            bad.append("mapping %x: remaining_spans=%d but the allocator knows %d spans of it" % (base, rem, owned.get(base, 0)))
    return bad


def derive_span_ops(prev, cur, map_count, first):
    """Model operations (ProofsSpans.v) that turn snapshot prev into snapshot cur."""
    ops = []
    _, pregs, pobjs = prev
    _, cregs, cobjs = cur
    # new mappings: the master span is handed out with span_count n; the heap control mapping has no reserve
    for base in sorted(b for b in cregs if b not in pregs):
        n = cobjs[base][0] if base in cobjs else cregs[base][0]
        ops.append("SM %d %x %d" % (n, base, n if (first or cregs[base][0] < map_count and cregs[base][0] == n) else map_count))
    newmap = any(b not in pregs for b in cregs)
    carve, release, other, to_res, unmap = [], [], [], [], []
    handled = set()
    for s, (cnt, m, st) in pobjs.items():
        if s < 0 or st != "R" or newmap:
            continue
        # the reserve was carved (partly or completely): an object now starts where the reserve started
        if s in cobjs and cobjs[s][2] != "R" and cobjs[s][0] <= cnt:
            carve.append("SF %d" % cobjs[s][0])
            handled.add(s)
            if cobjs[s][2] == "C":
                other.append("ST %x U C" % s)
    for s in sorted(pobjs):
        if s in handled or s < 0:
            continue
        if s not in cobjs:
            if pobjs[s][2] == "U":
                release.append("ST %x U C" % s)
            unmap.append("SU %x" % s)
        elif cobjs[s][:2] == pobjs[s][:2] and cobjs[s][2] != pobjs[s][2]:
            a, b2 = pobjs[s][2], cobjs[s][2]
            if a == "R" and newmap:
                continue        # op_map already moved the old reserve to the cache
            (to_res if b2 == "R" else release if a == "U" else other).append("ST %x %s %s" % (s, a, b2))
    # order: releases, carving of the reserve, remaining status changes (cache -> use), a span kept as the new reserve, unmaps
    return ops + release + carve + other + to_res + unmap


def snap_text(snap):
    _, regs, objs = snap
    rs = sorted("R %x %d %d" % (b, t, r) for b, (t, r) in regs.items())
    os_ = sorted("O %x %d %x %s" % (s, c, m, st) for s, (c, m, st) in objs.items() if s >= 0)
    return "D " + ";".join(rs + os_)


def span_layer_correspondence(ctx, exe, driver, name, cmds, cov):
    """Run a history with span snapshots, check the invariant on every snapshot (oracle) and replay the
    derived operations through the extracted span machine (model must reach the same state)."""
    rc, out, e = run_harness(exe, "P\n" + "\n".join(cmds) + "\n", trace=False, timeout=ctx.scale(120, 600))
    snaps = parse_snapshots(out)
    mc = 64
    for line in out.split("\n"):
        if line.startswith("K span_map_count"):
            mc = int(line.split()[2])
    d = {"snapshots": len(snaps), "model_ops": 0}
    if rc not in (0, 3) or not snaps:
        fl = [l for l in out.split("\n") if l.startswith("FAIL")]
        ctx.violation("history:span-layer:%s" % name, "oracle", "harness died (rc=%s) while tracing the span layer on %s after %d snapshots; first failure: %s" %
                      (rc, name, len(snaps), fl[0] if fl else "none reported"), detail={"commands": cmds[:40]})
        cov["oracle_failures"] += 1
        if not snaps:
            return d
    for sn in snaps:
        bad = span_invariant(sn)
        if bad:
            cov["oracle_failures"] += 1
            ctx.violation("history:span-layer:%s" % name, "oracle",
                          "span bookkeeping of the allocator violates the invariant after op %d of %s: %s" % (sn[0], name, "; ".join(bad[:3])),
                          detail={"commands": cmds[:40], "replay": "printf 'P\\n<commands>\\n' | %s" % exe})
            break
    lines = ["SX"]
    marks = []
    empty = (0, {}, {})
    prev = empty
    for k, sn in enumerate(snaps):
        ops = derive_span_ops(prev, sn, mc, first=(k == 0))
        lines += ops + ["SD"]
        marks.append(len(ops))
        d["model_ops"] += len(ops)
        prev = sn
    rc2, mout, me = vlib.sh([driver], input="\n".join(lines) + "\n", timeout=600)
    dumps, refused, acc = [], [], []
    for l in mout.split("\n"):
        if l.startswith("REFUSED"):
            acc.append(l)
        elif l.startswith("D "):
            dumps.append(l)
            refused.append(acc)
            acc = []
    for k, sn in enumerate(snaps):
        want = snap_text(sn)
        got = dumps[k] if k < len(dumps) else "<no output>"
        if got != want or refused[k]:
            cov["model_mismatches"] += 1
            ctx.violation("model-mismatch:span-layer:%s" % name, "correspondence",
                          "span-layer model (ProofsSpans.v) no longer follows the allocator on %s at op %d: %s; implementation state %s; model state %s" %
                          (name, sn[0], ("model refuses " + "; ".join(refused[k])) if refused[k] else "states differ", want[:400], got[:400]),
                          detail={"derived_ops": derive_span_ops(snaps[k - 1] if k else empty, sn, mc, k == 0), "commands": cmds[:40]}, failing_input=False)
            break
    return d


def combined_correspondence(ctx, exe, driver, name, cmds, cov):
    """Small/medium histories through the extracted COMBINED machine (cstep of ProofsCombined.v: heap model on top of the
    span model, no oracle): every answer (span, offset, usable size) and, at every span-layer snapshot, the whole span
    component must equal the implementation's."""
    rc, out, e = run_harness(exe, "P\n" + "\n".join(cmds) + "\n", trace=True, timeout=ctx.scale(120, 600))
    snaps = parse_snapshots(out)
    d = {"ops": 0, "snapshots_compared": 0}
    fl = [l for l in out.split("\n") if l.startswith("FAIL")]
    if rc not in (0, 3) or not snaps or fl:
        cov["oracle_failures"] += 1
        ctx.violation("history:combined:%s" % name, "oracle", "harness failed (rc=%s) on the small/medium history %s: %s" %
                      (rc, name, fl[0] if fl else "no failure line"), detail={"commands": cmds[:40]})
        if not snaps:
            return d
    mc = 64
    klines = []
    for line in out.split("\n"):
        if line.startswith("K span_map_count"):
            mc = int(line.split()[2])
        if line.startswith("K "):
            klines.append(line)
    lines = klines + ["SX"] + derive_span_ops((0, {}, {}), snaps[0], mc, first=True) + ["KC %d" % mc]
    expect = []          # ("P", O-words) or ("D", snapshot)
    k = -1
    for line in out.split("\n"):
        if line.startswith("SS "):
            k += 1
            if k > 0 and k < len(snaps):
                lines.append("CD")
                expect.append(("D", snaps[k]))
        elif line.startswith("O "):
            lines.append("C" + line)
            expect.append(("P", line.split()))
        elif line == "Z":
            break
    rc2, mout, me = vlib.sh([driver], input="\n".join(lines) + "\n", timeout=600)
    got = [l for l in mout.split("\n") if l.startswith(("CP ", "CE ", "D ")) or l.startswith("REFUSED")]
    for i, (kind, want) in enumerate(expect):
        g = got[i] if i < len(got) else "<no output>"
        if kind == "P":
            a = want
            exp = "CP %s %s %s %s" % (a[1], a[5], a[6], a[7]) if a[4] != "0" else "CP %s 0 0 0" % a[1]
            d["ops"] += 1
        else:
            exp = snap_text(want)
            d["snapshots_compared"] += 1
        if g != exp:
            cov["model_mismatches"] += 1
            ctx.violation("model-mismatch:combined:%s" % name, "correspondence",
                          "combined heap+span machine (cstep, ProofsCombined.v) no longer follows the allocator on %s at step %d: implementation %s; model %s" %
                          (name, i, exp[:400], g[:400]),
                          detail={"commands": cmds[:40], "replay": "printf 'P\\n%s\\n' | %s trace" % ("\\n".join(cmds[:5]), exe)}, failing_input=False)
            break
    return d


def parse_harness(out):
    K, table, O, fails, summary, M, X = {}, [], [], [], None, [], []
    for line in out.split("\n"):
        if not line:
            continue
        c = line[0]
        if c == "O" or line == "Z":
            O.append(line.split())
        elif c == "K":
            w = line.split()
            K[w[1]] = int(w[2])
        elif c == "C":
            w = line.split()
            table.append((int(w[2]), int(w[3]), int(w[4])))
        elif line.startswith("FAIL"):
            fails.append(line)
        elif c == "S":
            summary = dict(kv.split("=") for kv in line.split()[1:])
        elif c == "M":
            M.append(dict(kv.split("=") for kv in line.split()[1:]))
        elif c == "X":
            X.append(line.split())
    return K, table, O, fails, summary, M, X


def correspond(ctx):
    driver = vlib.ocaml_build(ID)
    exe, err = build_harness(ctx)
    if not exe:
        ctx.violation("harness-build", "harness", "C harness does not compile against %s/src/srpmalloc/srpmalloc.c: %s" % (vlib.REPO, err), failing_input=False)
        return {"evaluations": 0}
    rng = ctx.rng
    cov = {"streams": {}, "oracle_failures": 0, "model_mismatches": 0}
    samples = []
    distinct = set()
    evaluations = 0
    traced = 0

    # ---- constants and size-class table: implementation vs model vs Gen.v scrape
    rc, out, e = run_harness(exe, "T\n")
    K, table, _, _, _, _, _ = parse_harness(out)
    if rc != 0 or len(table) == 0:
        ctx.violation("harness-run", "harness", "harness T failed rc=%s %s" % (rc, e[-500:]), failing_input=False)
        return {"evaluations": 0}
    rc, mout, me = vlib.sh([driver], input="K page_size_shift %d\nT\nQ consts\n" % K["page_size_shift"])
    mtable = [tuple(int(x) for x in l.split()[2:]) for l in mout.split("\n") if l.startswith("C ")]
    mconst = {}
    for l in mout.split("\n"):
        if l.startswith("Q consts"):
            mconst = {kv.split("=")[0]: int(kv.split("=")[1]) for kv in l.split()[2:]}
    if mtable != table:
        diff = [(i, a, b) for i, (a, b) in enumerate(zip(table, mtable)) if a != b][:5]
        # property oracle on the implementation's table: every reachable class must fit its requests
        bad = None
        for k in range(K["MEDIUM_CLASS_COUNT"]):
            hi = K["SMALL_SIZE_LIMIT"] + (k + 1) * K["MEDIUM_GRANULARITY"]
            if hi <= K["medium_size_limit"]:
                base = table[K["SMALL_CLASS_COUNT"] + k]
                if table[base[2]][0] < hi:
                    bad = (k, hi, base)
                    break
        ctx.violation("model-mismatch:size-class-table", "correspondence",
                      "size class table of the implementation differs from the model's: %s" % (diff,),
                      detail={"first_differences(index, impl, model)": diff, "oracle_violation": bad}, failing_input=False)
        cov["model_mismatches"] += 1
    for k, v in mconst.items():
        if K.get(k) != v:
            ctx.violation("model-mismatch:constant-%s" % k, "correspondence", "constant %s: implementation (compiled) %s, model (scraped) %s" % (k, K.get(k), v), failing_input=False)
            cov["model_mismatches"] += 1
    evaluations += len(table)

    # ---- requests near SIZE_MAX (formerly: size + SPAN_HEADER_SIZE wrapped in _rpmalloc_allocate_huge; repaired
    #      in /repo c838ab1): a non-NULL result must be backed by at least the requested bytes, and the
    #      model's refusal (huge_request = None) must be a NULL in the implementation
    page = K["page_size"]
    probes = [(1 << 64) - 1, (1 << 64) - K["SPAN_HEADER_SIZE"], (1 << 64) - K["SPAN_HEADER_SIZE"] - 1,
              (1 << 64) - 1 - K["SPAN_HEADER_SIZE"] - page + 1, (1 << 64) - 1 - K["SPAN_HEADER_SIZE"] - page, (1 << 63) + 5]
    rc, out, e = run_harness(exe, "".join("X %x\n" % p for p in probes), trace=False)
    rc2, mout, me = vlib.sh([driver], input="K page_size_shift %d\n" % K["page_size_shift"] + "".join("Q huge %x\n" % p for p in probes))
    refused = {l.split()[2] for l in mout.split("\n") if l.startswith("Q huge") and l.endswith("refused")}
    for w in parse_harness(out)[6]:
        req = int(w[1], 16)
        if w[2] == "nonnull":
            mapped = int(w[3].split("=")[1], 16)
            if mapped < req:
                ctx.violation("huge-wrap:size=0x%x" % req, "oracle",
                              "L_alloc(NULL,0,0x%x) returns a non-NULL block for which only 0x%x bytes were mapped (< requested): size + SPAN_HEADER_SIZE wraps modulo 2^64 in _rpmalloc_allocate_huge" % (req, mapped),
                              detail={"replay": "echo 'X %x' | %s   (harness/C19/harness.c built against %s/src/srpmalloc/srpmalloc.c)" % (req, exe, vlib.REPO),
                                      "model": "C19_large_huge_fit (HUGE_OVERFLOW_GUARD)"})
                cov["oracle_failures"] += 1
            elif w[1] in refused:
                ctx.violation("model-mismatch:huge-refusal", "correspondence", "model refuses a request of 0x%x bytes, the implementation serves it" % req, failing_input=False)
        elif w[2] == "crashed":
            ctx.violation("huge-wrap:size=0x%x" % req, "oracle", "L_alloc(NULL,0,0x%x) crashes the allocator (%s)" % (req, w[3]))
            cov["oracle_failures"] += 1
    evaluations += len(probes)

    # ---- streams
    streams = []
    cdir = os.path.join(vlib.VERIF, "corpus", ID)
    if os.path.isdir(cdir):
        for f in sorted(os.listdir(cdir)):
            if f.endswith(".ops"):
                lines = [l for l in vlib.read(os.path.join(cdir, f)).split("\n") if l and not l.startswith("#")]
                streams.append(Stream("corpus/" + f, lines, "harness trace < corpus/C19/" + f))
    tops = targeted_ops(rng, table, K)
    streams.append(Stream("targeted", tops, "targeted_ops(seed=%d)" % ctx.seed))
    nG = ctx.scale(4, 24)
    for i in range(nG):
        seed = rng.randrange(1, 1 << 40)
        prof = [1, 0, 3, 2, 1, 0][i % 6]
        n = {0: 30000, 1: 50000, 2: 2500, 3: 8000}[prof]
        ns = rng.choice([8, 64, 500, 3000])
        streams.append(Stream("random-p%d" % prof, ["G %d %d %d %d" % (seed, n, ns, prof)], "G %d %d %d %d" % (seed, n, ns, prof)))

    for st in streams:
        text = "\n".join(st.lines) + "\nF\n"
        rc, out, e = run_harness(exe, text, trace=True, timeout=ctx.scale(240, 1800))
        _, _, O, fails, summ, M, _ = parse_harness(out)
        OZ = O
        O = [w for w in OZ if w[0] == "O"]
        nops = len(O)
        evaluations += nops
        traced += nops
        d = cov["streams"].setdefault(st.name, {"runs": 0, "ops": 0, "fails": 0})
        d["runs"] += 1
        d["ops"] += nops
        if summ:
            for k in ("alloc", "free", "inplace", "moved", "small", "medium", "large", "huge"):
                d[k] = d.get(k, 0) + int(summ.get(k, 0))
        if rc not in (0, 3) or summ is None:
            ctx.violation("history:%s:%s" % (st.name, st.replay), "oracle",
                          "allocator harness died (rc=%s%s) on stream %s after %d traced operations; first failure reported before: %s" %
                          (rc, " = SIGSEGV" if rc == -11 else " = watchdog/timeout" if rc in (-14, 124) else "", st.name, nops,
                           fails[0] if fails else "none (crash inside the allocator) " + e[-300:]),
                          detail={"failures": fails[:10], "replay": "printf '<commands>\\nF\\n' | %s trace   with commands = %s" % (exe, st.replay),
                                  "commands_head": st.lines[:30], "last_traced_ops": [" ".join(w) for w in O[-3:]]})
            cov["oracle_failures"] += 1
            continue
        if fails:
            cov["oracle_failures"] += len(fails)
            d["fails"] += len(fails)
            ctx.violation("history:%s:%s" % (st.name, st.replay), "oracle",
                          "live-block property violated by the allocator on stream %s: %s" % (st.name, fails[0]),
                          detail={"failures": fails[:10], "replay": "printf '%%s\\nF\\n' '<commands>' | %s trace   with commands = %s" % (exe, st.replay),
                                  "commands_head": st.lines[:30]})
        for w in O:
            if w[4] != "0":
                distinct.add((w[3], w[4]))
        # model replay
        rc2, mout, me = vlib.sh([driver], input="K page_size_shift %d\n" % K["page_size_shift"] + "\n".join(" ".join(w) for w in OZ) + "\n", timeout=1800)
        ml = [l.split() for l in mout.split("\n") if l and l[0] in "PE?"]
        if rc2 != 0 or len(ml) != len(O):
            ctx.violation("harness-run", "harness", "model driver rc=%s lines %d of %d %s" % (rc2, len(ml), len(O), me[-300:]), failing_input=False)
            continue
        for a, b in zip(O, ml):
            exp = ["P", a[1], a[5], a[6], a[7], a[12]] if a[4] != "0" else ["P", a[1], "0", "0", "0", "0"]
            if b != exp:
                cov["model_mismatches"] += 1
                if not fails:
                    ctx.violation("model-mismatch:%s" % st.name, "correspondence",
                                  "model no longer predicts the allocator on stream %s at op %s (slot %s osize %s nsize %s): implementation span=%s off=%s usable=%s inplace=%s, model %s" %
                                  (st.name, a[1], a[2], a[3], a[4], a[5], a[6], a[7], a[12], " ".join(b)),
                                  detail={"replay": st.replay, "no_longer_checks": "trace correspondence C19/" + st.name}, failing_input=False)
                break
        if len(samples) < 6 and O:
            samples.append({"stream": st.name, "replay": st.replay, "first_ops": [" ".join(w) for w in O[:3]]})

    # ---- span layer: operation-by-operation correspondence of the span machine of ProofsSpans.v with the allocator
    span_cov = {}
    span_streams = [("targeted-large-cache", [l for l in tops if l != "F"][-200:]),
                    ("corpus-huge-and-span-cache", [l for l in vlib.read(os.path.join(vlib.VERIF, "corpus", ID, "huge_and_span_cache.ops")).split("\n") if l and not l.startswith("#") and l != "F"])]
    span_streams.append(("corpus-master-recarved", [l for l in vlib.read(os.path.join(vlib.VERIF, "corpus", ID, "master_recarved.ops")).split("\n") if l and not l.startswith("#")]))
    for i in range(ctx.scale(3, 12)):
        prof = [2, 3, 0][i % 3]
        span_streams.append(("random-p%d-%d" % (prof, i), ["G %d %d %d %d" % (rng.randrange(1, 1 << 40), ctx.scale(1500, 6000), rng.choice([8, 64, 300]), prof)]))
    for name, cmds in span_streams:
        span_cov[name] = span_layer_correspondence(ctx, exe, driver, name, cmds, cov)
        evaluations += span_cov[name].get("snapshots", 0)
    cov["streams"]["span-layer"] = {"runs": len(span_streams), "snapshots": sum(v.get("snapshots", 0) for v in span_cov.values()),
                                    "model_ops_replayed": sum(v.get("model_ops", 0) for v in span_cov.values())}

    # ---- combined machine (cstep of ProofsCombined.v), small/medium allocations and frees: the heap model takes its spans
    # from the span model - no oracle - and must give the implementation's answers and span-layer states
    comb_cov = {}
    comb_streams = [("random-sm-%d" % i, ["G %d %d %d 4" % (rng.randrange(1, 1 << 40), ctx.scale(2500, 12000), rng.choice([40, 300, 1200]))])
                    for i in range(ctx.scale(3, 12))]
    comb_streams.append(("fill-and-drain", ["A %d 30000" % i for i in range(150)] + ["A %d 0" % i for i in range(150)] +
                         ["A %d 20000" % i for i in range(100)] + ["A %d 0" % i for i in range(0, 100, 2)] + ["A %d 700" % i for i in range(200, 400)]))
    for name, cmds in comb_streams:
        comb_cov[name] = combined_correspondence(ctx, exe, driver, name, cmds, cov)
        evaluations += comb_cov[name].get("ops", 0)
    cov["streams"]["combined-machine"] = {"runs": len(comb_streams), "ops": sum(v.get("ops", 0) for v in comb_cov.values()),
                                          "span_states_compared": sum(v.get("snapshots_compared", 0) for v in comb_cov.values())}

    # ---- untraced volume runs (property oracle only, in C)
    vol = ctx.scale([(1, 120000)], [(1, 6000000)] * 8 + [(0, 2000000)] * 4 + [(3, 150000)] * 2)
    vol_ops = 0
    import concurrent.futures

    def one(job):
        prof, n = job[0]
        seed = job[1]
        cmds = "G %d %d %d %d\nF\n" % (seed, n, 2000, prof)
        return cmds, run_harness(exe, cmds, trace=False, timeout=ctx.scale(300, 3000))

    jobs = [(j, rng.randrange(1, 1 << 40)) for j in vol]
    with concurrent.futures.ThreadPoolExecutor(max_workers=min(8, len(jobs))) as ex:
        for cmds, (rc, out, e) in ex.map(one, jobs):
            _, _, _, fails, summ, M, _ = parse_harness(out)
            n = int(summ["ops"]) if summ else 0
            vol_ops += n
            evaluations += n
            d = cov["streams"].setdefault("volume", {"runs": 0, "ops": 0, "fails": 0})
            d["runs"] += 1
            d["ops"] += n
            if rc not in (0, 3) or summ is None or fails:
                cov["oracle_failures"] += max(1, len(fails))
                ctx.violation("history:volume:%s" % cmds.split("\n")[0], "oracle",
                              "live-block property violated by the allocator on %s: %s" % (cmds.split("\n")[0], fails[0] if fails else "rc=%s %s" % (rc, e[-300:])),
                              detail={"failures": fails[:10], "replay": "printf '%s' | %s" % (cmds.replace("\n", "\\n"), exe)})

    # ---- thorough: clang + ASan/UBSan build of the same harness
    if ctx.thorough:
        sexe, serr = build_harness(ctx, cc="clang", flags=("-O1", "-fsanitize=address,undefined", "-fno-sanitize-recover=undefined", "-fno-omit-frame-pointer"), tag="clang-asan-ubsan")
        if not sexe:
            ctx.note("sanitizer harness build failed: %s" % serr[-500:])
            cov["sanitizer"] = "build failed"
        else:
            senv = {"ASAN_OPTIONS": "detect_leaks=0:abort_on_error=0", "UBSAN_OPTIONS": "print_stacktrace=1:halt_on_error=1"}
            sjobs = ["\n".join(tops) + "\nF\n"] + ["G %d %d %d %d\nF\n" % (rng.randrange(1, 1 << 40), n, 1000, p) for p, n in ((1, 600000), (0, 300000), (3, 50000), (2, 8000))]
            sops = 0
            for cmds in sjobs:
                rc, out, e = run_harness(sexe, cmds, trace=False, timeout=3000, env=senv)
                _, _, _, fails, summ, M, _ = parse_harness(out)
                sops += int(summ["ops"]) if summ else 0
                if rc != 0 or fails or "runtime error" in e or "AddressSanitizer" in e:
                    head = cmds.split("\n")[0] if cmds.startswith("G") else "targeted_ops(seed=%d)" % ctx.seed
                    ctx.violation("history:sanitizer:%s" % head, "oracle",
                                  "sanitizer build (clang ASan+UBSan) of the allocator harness reports a problem on %s: %s" % (head, (fails[0] if fails else e[-600:])),
                                  detail={"stderr": e[-3000:], "failures": fails[:5]})
                    cov["oracle_failures"] += 1
            evaluations += sops
            cov["sanitizer"] = {"build": "clang -O1 -fsanitize=address,undefined", "ops": sops}

    cov.update({
        "evaluations": evaluations,
        "distinct_nontrivial": len(distinct),
        "rule": "histories of L_alloc calls (corpus, targeted at class/span/page/in-place boundaries, xorshift-random over 4 size profiles and 8..3000 live slots); non-trivial = distinct (old size, new size) pairs with new size > 0 among the traced operations; every traced operation is predicted by the extracted model, every operation (traced or not) is checked by the shadow map in the harness",
        "samples": samples,
        "distribution": cov["streams"],
        "traces_validated_against_impl": traced,
        "untraced_volume_ops": vol_ops,
        "size_classes_compared": len(table),
        "page_size": K.get("page_size"),
    })
    del cov["streams"]
    return cov
