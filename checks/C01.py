"""C01 - compiled programs behave exactly like the same program under reference Lua 5.4.

(T) operator ladder of syntaxdefs.lua, priority[]/UNARY_PRIORITY of lparser.c and the base C flags
    of cdefs.lua are scraped into coq/C01/Gen.v on every run;
(C) the extracted model is run next to (a) a compiled Nelua driver and the same operations under the
    reference interpreter (numbers, mixed comparisons, numeric for), (b) the real front end
    (--print-ast) on operator chains, (c) generated programs of the shared subset compiled by the
    real compiler vs run by the reference interpreter (differential stream; the property oracle is
    the reference interpreter's stdout)."""
import os
import re
import sys
import json
import concurrent.futures as cf

import vlib

sys.path.insert(0, os.path.join(vlib.VERIF, "harness", "C01"))
import scrape  # noqa: E402
import progs   # noqa: E402

ID = "C01"
ALLOWED_AXIOMS = []
TRUSTED_BASE = [
    "coqc 8.16.1 kernel (vm_compute used for table facts and refutation witnesses; no native_compute)",
    "no axioms: every theorem of coq/C01/Properties.v is 'Closed under the global context'",
    "translator harness/C01/scrape.py (regex scrape of the expression ladder of syntaxdefs.lua, priority[]/UNARY_PRIORITY of src/lua/lparser.c with the BinOpr order of lcode.h, cflags_base of cdefs.lua for gcc and clang, position of the b == -1 line and the fast-path width of the shift operators in cbuiltins.lua, the emitter each statement of cgenerator.visitors.VarDecl is written to, the two `sideeffect` rules of analyzer.lua: visitor_Call's propagation from the arguments and visitors.Assign's marking of stores without a symbol)",
    "cross-property files: coq/C01/{CSem,Helpers}.v are COPIES of coq/C03/{CSem,Helpers}.v and coq/C01/VarDecl.v is a COPY of coq/C09/VarDecl.v, rewritten by checks/C01.py:sync_shared during gen (a change in coq/C03 or coq/C09 changes this check); coq/C01/Order.v is the source copied to coq/C09; harness/C01/scrape.py, progs.py and vardecl.py are also used by checks/C03.py and checks/C09.py",
    "extraction: Require Extraction + ExtrOcamlBasic only; ocaml/zutil.ml + coq/C01/driver.ml",
    "harnesses: harness/C01/numdrv.nelua (compiled by the real compiler), harness/C01/numdrv.lua (reference interpreter rebuilt from /repo/src), harness/C01/progs.py (program generator, annotation eraser, AST printer parser), harness/C01/vardecl.py",
    "modelled rather than verified: coq/C01/CSem.v (C integer semantics, UB = None), Helpers.v (cbuiltins helper bodies transcribed by hand), Model.v/Order.v/VarDecl.v; the tie is the correspondence run on every check",
    "gcc 12 / clang 14 and libc (printf %.14g, floor, fmod, pow) are outside the model",
]
ASSUMPTIONS = [
    "Lua VM integer semantics as written in coq/Base/LuaInt.v; lvm.c forprep/LTintfloat/LEintfloat/luaV_equalobj transcribed in coq/C01/Model.v",
    "C dialect: LP64, two's complement, -fwrapv semantics for + - * unary- when the scraped base flags of BOTH gcc and clang contain it; int64->double conversion rounds to nearest even (rne53)",
    "Attr:is_maybe_negative answers `false` only through its scraped exits; that exit 1 (unsigned type) and exit 2 (compile-time value >= 0) cannot apply to a run-time int64 variable is read off their conditions by hand (Model.rt_maybe_negative), an unknown exit breaks the proofs",
    "C's unsequenced evaluation is modelled as an oracle choosing an order of whole operands per operator/call node (no interleaving inside operands)",
    "float arithmetic // % ^ and number formatting are not modelled: covered by the differential stream only (testing)",
    "statements other than numeric for and multi-variable local declarations, functions/multiple returns, require, strings: differential stream only (testing)",
    "the sign of a printed NaN (`nan` / `-nan`) is not compared in the generated-program stream (unspecified by IEEE 754; the compile-time witness `print(0.0/0.0)` is compared exactly)",
]
# clauses of the statement that no theorem covers (differential testing only, or nothing)
UNPROVED = [
    "no program-level theorem: the operator, comparison, for-loop, evaluation-order, declaration-order and precedence theorems are not composed into `every program of the shared subset prints what Lua prints`",
    "float arithmetic (+ - * / on number, // % ^, mixed integer/float arithmetic, float -> integer conversions other than in comparisons): generated programs only",
    "number formatting (tostring, .., print of floats: %.14g, integer-valued floats, inf/nan), string operations, string library: generated programs only (two open findings: 123456789012345.0 .. \"\", 0.0/0.0)",
    "control flow other than the numeric for over integers (while, repeat, if, goto, break, float for loops), functions, closures, recursion, multiple returns, require: generated programs only",
    "the identification of the PEG expression ladder of syntaxdefs.lua with the precedence-climbing function `climb` is unproved: C01_tables_agree is about two tables fed to the same algorithm; the real parser is compared with Lua's on generated chains (parse stream)",
    "Order.v's expression language has no `and`/`or`, no method calls and no multiple-return calls: visitor_Call's other two `sequential` triggers (lastcallindex: a trailing multiple-return argument; tmpcallee: a method call on a non-identifier object) are not modelled, only exercised by generated programs",
    "C01_order_preserved_partial needs `no_writes`: for expressions whose functions write variables the result depends on the C compiler (refuted, 4 open findings)",
    "VarDecl.v models the order of the effects of a declaration only; visitors.Assign (multiple assignment) is covered by generated programs only",
    "compile-time evaluation of constant expressions (the constant folder) is C02's subject; here only through the designated witness programs",
    "integer types other than int64 (Nelua's `integer`), unsigned arithmetic: not part of the shared subset",
]
THEOREM_CLASSES = {
    "C01_add_eq": "main", "C01_sub_eq": "main", "C01_mul_eq": "main", "C01_unm_eq": "main",
    "C01_band_eq": "main", "C01_bor_eq": "main", "C01_bxor_eq": "main", "C01_bnot_eq": "main",
    "C01_idiv_eq": "main", "C01_imod_eq": "main",
    "C01_idiv_maybe_negative_iff": "tripwire",    # every answer of is_maybe_negative: Lua's // % iff the operand counts as possibly negative
    "C01_div_by_zero_both_stop": "main",
    "C01_shl_eq": "main", "C01_shr_eq": "main", "C01_cmp_eq": "main",
    "C01_mixed_cmp_refuted": "refutation", "C01_mixed_cmp_partial": "main", "C01_lua_mixed_cmp_exact": "corollary",     # about the reference side's model only (lvm.c mixed comparisons = the exact order)
    "C01_fornum_refuted": "refutation", "C01_fornum_partial": "main",
    "C01_order_refuted": "refutation",            # witness g(x, f()): known finding `print(counter, inc())`
    "C01_order_refuted_global": "refutation",     # known finding `print(x + f())` [gcc]
    "C01_order_refuted_local": "refutation",      # known finding `print(y + fy())` [clang]
    "C01_order_refuted_args3": "refutation",      # known finding `g(x, f(), h())`
    "C01_order_se_policy_iff": "tripwire",                # every analyzer policy: each repaired witness agrees iff its rule is in force
    "C01_order_wrapper_sequenced": "tripwire",            # the three former witnesses under the SCRAPED analyzer rules (7b4cb3f, 9e49985):
    "C01_order_wrapped_args_sequenced": "tripwire",       # a revert flips Gen.analyzer_se_policy and breaks them; witnesses still replayed
    "C01_order_indirect_store_sequenced": "tripwire",
    "C01_order_args_rule_needed": "corollary",            # the premise of the positive theorem is necessary
    "C01_order_preserved_partial": "main",
    "C01_vardecl_order": "main",                  # full strength since /repo d685d37, f54f9c0 (was _refuted)
    "C01_vardecl_order_iff_policy": "tripwire",   # every placement: source order iff both statements go to defemitter
    "C01_vardecl_order_partial": "corollary",
    "C01_tables_agree": "main",
    "C01_ladder_facts": "tripwire",
}
MANIFEST_ENTRY = {
    "text": "proof, partial: theorems cover int64 + - * unary- & | ~ // % << >> and the comparisons < <= == ~= (= Lua for all operands; > >= are the swapped forms, sent to the compiler but not separate theorems; division by zero stops both), integer/float comparisons (refuted beyond 2^53, partial below; Lua's side exact), the numeric for loop (refuted at the type limits, partial inside), evaluation order of operands and call arguments under the analyzer's two scraped sideeffect rules (refuted when a function writes a variable another operand reads; proved, for events and values, when no function writes), the order of the values of a multi-variable declaration (source order, full strength since /repo d685d37 and f54f9c0), and the agreement of the two precedence tables under one precedence-climbing function.  Rest on differential testing only: floats, number formatting, strings, control flow, functions, require, the real PEG parser = climb, programs as a whole.",
    "note": "no axioms; tie: scraped syntaxdefs.lua/lparser.c/cdefs.lua/cbuiltins.lua/cgenerator.lua facts in Gen.v, extracted model run against the real compiler (numdrv.nelua), the reference interpreter rebuilt from /repo/src and generated programs; 15 open findings replayed on every run; depends on coq/C03/{CSem,Helpers}.v and coq/C09/VarDecl.v (copied by sync_shared)",
    "technique": "Coq theorems about an executable Gallina model + generated parameters + behavioural correspondence of the extracted model; differential testing against reference Lua",
}


def coq_match(name, typ, table, keys, ctor):
    lines = ["Definition %s (o : binop) : %s :=\n  match o with" % (name, typ)]
    for k in keys:
        lines.append("  | %s => %d" % (ctor[k], table[k]))
    lines.append("  end.")
    return "\n".join(lines)


# files maintained in one sub-project and copied (module path rewritten) into the others by gen():
#   (owner, file) -> users
SHARED = [
    ("C03", "CSem", ("C01", "C09")),          # C integer / float semantics with UB
    ("C03", "Helpers", ("C01", "C09")),       # the emitted run-time helpers
    ("C03", "ProofsBase", ("C09",)),          # UB-freedom of the division helpers (C09 needs "a passing check returns a value")
    ("C03", "ProofsDiv", ("C09",)),
    ("C09", "VarDecl", ("C01",)),             # order of the effects of a multi-variable declaration
    ("C01", "Order", ("C09",)),               # sequencing model of operands / arguments
]


def sync_shared(pid):
    """Copy the shared Coq sources this sub-project uses from their owner (module path rewritten)."""
    out = {}
    for owner, f, users in SHARED:
        if pid not in users:
            continue
        src = vlib.read(os.path.join(vlib.coq_dir(owner), f + ".v"))
        txt = "(* COPY of coq/%s/%s.v (kept in sync by checks/%s.py:gen) *)\n" % (owner, f, pid) + \
              src.replace("From %s Require" % owner, "From %s Require" % pid)
        out[f] = vlib.write_if_changed(os.path.join(vlib.coq_dir(pid), f + ".v"), txt)
    return out


def gen(ctx):
    lad = scrape.scrape_ladder(vlib.repo_read("lualib/nelua/syntaxdefs.lua"))
    lua = scrape.scrape_luaprio(vlib.repo_read("src/lua/lparser.c"), vlib.repo_read("src/lua/lcode.h"))
    fl = scrape.scrape_cflags(vlib.repo_read("lualib/nelua/cdefs.lua"))
    guard = scrape.scrape_div_guard(vlib.repo_read("lualib/nelua/cbuiltins.lua"))
    fastw = scrape.scrape_shift_fast_path(vlib.repo_read("lualib/nelua/cbuiltins.lua"))
    vdp = scrape.scrape_vardecl_policy(vlib.repo_read("lualib/nelua/cgenerator.lua"))
    sep = scrape.scrape_sideeffect_policy(vlib.repo_read("lualib/nelua/analyzer.lua"))
    mneg = scrape.scrape_maybe_negative(vlib.repo_read("lualib/nelua/attr.lua"), vlib.repo_read("lualib/nelua/cbuiltins.lua"))
    keys = list(scrape.BINOPS)
    gcc_base = fl["gcc"]["cflags_base"].split()
    clang_base = fl["clang"]["cflags_base"].split()
    txt = "\n".join([
        "(* GENERATED by checks/C01.py from /repo (syntaxdefs.lua, src/lua/lparser.c, lcode.h, cdefs.lua) - do not edit *)",
        "From Coq Require Import ZArith Bool List.",
        "Import ListNotations.",
        "From C01 Require Import Ops VarDecl.",
        "From C01 Require Order.",
        "Local Open Scope Z_scope.",
        "(* rule number (1 = expror) of the ladder rule whose operator list contains the operator *)",
        coq_match("nelua_level", "Z", lad["binop_level"], keys, scrape.BINOPS),
        "(* rule number of the rule after `@` in the operator's op rule (where its right operand is parsed) *)",
        coq_match("nelua_operand_level", "Z", lad["binop_operand_level"], keys, scrape.BINOPS),
        "Definition nelua_unary_level : Z := %d." % lad["unary_level"],
        "Definition nelua_unary_operand_level : Z := %d." % lad["unary_operand_level"],
        "(* priority[op].left / .right and UNARY_PRIORITY of lparser.c *)",
        coq_match("lua_left", "Z", lua["left"], keys, scrape.BINOPS),
        coq_match("lua_right", "Z", lua["right"], keys, scrape.BINOPS),
        "Definition lua_unary : Z := %d." % lua["unary"],
        "(* cdefs.lua compilers_flags.<cc>.cflags_base contains -fwrapv *)",
        "Definition gcc_base_has_fwrapv : bool := %s." % ("true" if "-fwrapv" in gcc_base else "false"),
        "Definition clang_base_has_fwrapv : bool := %s." % ("true" if "-fwrapv" in clang_base else "false"),
        "(* cbuiltins.nelua_idiv_/nelua_imod_: the `b == -1` line is emitted before `if checked then` *)",
        "Definition idiv_guard_first : bool := %s." % ("true" if guard["idiv"] else "false"),
        "Definition imod_guard_first : bool := %s." % ("true" if guard["imod"] else "false"),
        "(* operators.shl/shr/asr: the constant count of the plain-C fast path is compared with the width of the shifted operand *)",
        "Definition shl_fast_width_left : bool := %s." % ("true" if fastw["shl"] else "false"),
        "Definition shr_fast_width_left : bool := %s." % ("true" if fastw["shr"] else "false"),
        "(* cgenerator.visitors.VarDecl: does the bare initializer of a variable dropped by dead code elimination /",
        "   the `_asgnret = call` statement of a trailing multiple-return call go to `defemitter` (appended last)? *)",
        "Definition vardecl_policy : vd_policy := mk_vdp %s %s." % ("true" if vdp["dead_in_def"] else "false", "true" if vdp["asgnret_in_def"] else "false"),
        "(* attr.lua Attr:is_maybe_negative: the conditions under which it answers `false` (1 = unsigned type, 2 = compile-time",
        "   value >= 0, >= 100 = a condition the model does not know: %s); operators.idiv / operators.mod call the floor" % (mneg["unknown"] or "none"),
        "   helper when either operand may be negative *)",
        "Definition maybe_negative_exits : list nat := [%s]." % "; ".join("%d%%nat" % a for a in mneg["exits"]),
        "Definition idiv_helper_if_either_maybe_negative : bool := %s." % ("true" if mneg["either"] else "false"),
        "(* analyzer.lua: visitor_Call gives a call the `sideeffect` attribute of its arguments / visitors.Assign marks the",
        "   enclosing function for a store whose target has no symbol (field, index, pointer) *)",
        "Definition analyzer_se_policy : Order.se_policy := Order.mk_sep %s %s." % ("true" if sep["args_propagate"] else "false", "true" if sep["indirect_marks"] else "false"),
        "",
    ])
    vlib.write_if_changed(os.path.join(vlib.coq_dir(ID), "Gen.v"), txt)
    sync_shared(ID)
    bad_tokens = {k: v for k, v in lad["tokens"].items()
                  if scrape.LUA_TOKEN.get(k[2:] if k.startswith("u:") else k) != v}
    return {"nelua_ladder": lad, "lua_priority": lua, "gcc_cflags_base": gcc_base, "clang_cflags_base": clang_base,
            "tokens_differing_from_lua": bad_tokens, "div_guard_first": guard, "shift_fast_path_compares_left_width": fastw,
            "vardecl_policy": vdp, "sideeffect_policy": sep, "is_maybe_negative": mneg}


# ---------------------------------------------------------------------------
# correspondence
# ---------------------------------------------------------------------------
M64 = 1 << 64
MAXI = (1 << 63) - 1
MINI = -(1 << 63)
BINCODE = {"add": 1, "sub": 2, "mul": 3, "band": 4, "bor": 5, "bxor": 6, "idiv": 7, "imod": 8, "shl": 9,
           "shr": 10, "lt": 11, "le": 12, "eq": 13, "ne": 14, "gt": 17, "ge": 18}
UNCODE = {"unm": 15, "bnot": 16}
MIXCODE = {"lt_if": 20, "le_if": 21, "lt_fi": 22, "le_fi": 23, "eq_if": 24, "gt_if": 26, "ge_if": 27, "ne_if": 28}
FORLIT = {31: 1, 32: -1, 33: 3, 34: -5}

WITNESS_MIXED = "mixed-compare: 9007199254740993 <= 9007199254740992.0 with run-time operands (integer vs number)"
WITNESS_FOR = "fornum: for i = math.maxinteger-1, math.maxinteger (run-time bounds, step 1)"


def hexs(v):
    return ("-%x" % -v) if v < 0 else "%x" % v


def unhex(s):
    return -int(s[1:], 16) if s.startswith("-") else int(s, 16)


def wrap(v):
    v %= M64
    return v - M64 if v >= M64 // 2 else v


def int_lattice():
    L = {0, 1, -1, 2, -2, 3, -3, 7, -7, 63, 64, 65, -63, -64, -65, 127, 128, 255, 256, MAXI, MINI, MAXI - 1, MINI + 1}
    for k in (8, 16, 31, 32, 33, 52, 53, 54, 62, 63):
        for d in (-1, 0, 1):
            for s in (1, -1):
                v = s * (1 << k) + d
                if MINI <= v <= MAXI:
                    L.add(v)
    return sorted(L)


def double_parts(bits):
    """IEEE-754 binary64 bit pattern -> driver float syntax."""
    bits &= M64 - 1
    sign = bits >> 63
    exp = (bits >> 52) & 0x7FF
    frac = bits & ((1 << 52) - 1)
    if exp == 0x7FF:
        return "nan" if frac else ("-inf" if sign else "+inf")
    if exp == 0:
        m, e = frac, -1074
    else:
        m, e = frac | (1 << 52), exp - 1075
    if sign:
        m = -m
    return "fin:%s:%s" % (hexs(m), hexs(e))


def double_bits(x):
    import struct
    return struct.unpack("<q", struct.pack("<d", x))[0]


def build_numdrv(ctx, interp):
    src = os.path.join(vlib.VERIF, "harness", ID, "numdrv.nelua")
    key = vlib.sha_files([src] + vlib.walk_files(os.path.join(vlib.REPO, "lualib"), (".lua",)))[:16]
    out = os.path.join(ctx.work, "numdrv-" + key)
    if not os.path.exists(out):
        rc, o, e = vlib.nelua_build(src, out, cache_dir=os.path.join(ctx.work, "cache-numdrv-" + key), interp=interp)
        if rc != 0:
            raise RuntimeError("numdrv.nelua does not compile: " + (o + e)[-1500:])
    return out


def gen_num_cases(ctx):
    rng = ctx.rng
    L = int_lattice()
    cases = []   # (stream, kind, op, a, b, c, d)
    shifts = sorted({0, 1, 2, 31, 32, 33, 62, 63, 64, 65, 127, 128, -1, -2, -31, -32, -33, -62, -63, -64, -65, -128,
                     MAXI, MINI, 1 << 32, -(1 << 32)})
    pairs = [(a, b) for a in L for b in L]
    if not ctx.thorough:
        pairs = rng.sample(pairs, 700)
    for op in BINCODE:
        if op in ("shl", "shr"):
            for a in (L if ctx.thorough else rng.sample(L, 25)):
                for b in shifts:
                    cases.append(("lattice", "bin", op, a, b, 0, 0))
            continue
        for a, b in pairs:
            if op in ("idiv", "imod") and b == 0:
                continue
            cases.append(("lattice", "bin", op, a, b, 0, 0))
    for op in UNCODE:
        for a in L:
            cases.append(("lattice", "un", op, a, 0, 0, 0))
    for n in range(64):
        for a in rng.sample(L, 6):
            cases.append(("litshift", "bin", "shlk", a, n, 0, 0))
            cases.append(("litshift", "bin", "shrk", a, n, 0, 0))
    for _ in range(ctx.scale(3000, 100000)):
        op = rng.choice(list(BINCODE))
        kind = rng.choice(["dense", "small", "near"])

        def draw():
            if kind == "dense":
                return wrap(rng.getrandbits(64))
            if kind == "small":
                return rng.randint(-200, 200)
            return wrap(rng.choice(L) + rng.randint(-3, 3))
        a, b = draw(), draw()
        if op in ("shl", "shr") and rng.random() < .7:
            b = rng.randint(-70, 70)
        if op in ("idiv", "imod") and b == 0:
            b = 1
        cases.append((kind, "bin", op, a, b, 0, 0))
    # mixed comparisons: integers around 2^53 and the int64 limits x doubles around them
    ints = sorted({0, 1, -1, 2 ** 53, 2 ** 53 + 1, 2 ** 53 - 1, -2 ** 53, -2 ** 53 - 1, -2 ** 53 + 1, 2 ** 53 + 2, 2 ** 53 + 3,
                   2 ** 62, 2 ** 62 + 1, MAXI, MAXI - 1, MINI, MINI + 1, 2 ** 60 + 1, -2 ** 60 - 1, 3, -3, 10 ** 15, 10 ** 17 + 1,
                   MAXI - 512, MAXI - 511, MAXI - 513})
    fls = [0.0, -0.0, 0.5, -0.5, 1.0, 1.5, -1.5, 2.0 ** 53, 2.0 ** 53 + 2, 2.0 ** 53 - 1, -2.0 ** 53, 2.0 ** 62, 2.0 ** 63, -2.0 ** 63,
           2.0 ** 63 - 1024, 2.0 ** 64, 1e300, -1e300, float("inf"), float("-inf"), float("nan"), 5e-324, 3.0, -3.0, 1e15, 1e17,
           2.0 ** 60, -2.0 ** 60, 9.223372036854775e18, -9.223372036854777e18]
    for op in MIXCODE:
        for i in ints:
            for f in fls:
                cases.append(("mixed-lattice", "mix", op, i, double_bits(f), 0, 0))
    for _ in range(ctx.scale(1500, 40000)):
        op = rng.choice(list(MIXCODE))
        r = rng.random()
        if r < .4:
            i = wrap(rng.getrandbits(64)) >> rng.randrange(0, 12)
            f = float(i + rng.choice([-1, 0, 0, 1])) * rng.choice([1.0, 1.0, 0.5])
        elif r < .7:
            i = rng.choice(ints) + rng.randint(-2, 2)
            i = max(MINI, min(MAXI, i))
            f = float(i)
            import math
            f = math.nextafter(f, rng.choice([-math.inf, math.inf])) if rng.random() < .5 else f
        else:
            i = rng.randint(-10 ** 6, 10 ** 6)
            f = rng.uniform(-10 ** 6, 10 ** 6)
        cases.append(("mixed-random", "mix", op, i, double_bits(f), 0, 0))
    for i in ints + [wrap(rng.getrandbits(64)) for _ in range(200)]:
        cases.append(("rne", "rne", "rne", i, 0, 0, 0))
    # numeric for: (a, b, step, cap); code 30 = run-time step, 31..34 literal steps
    cap = 6
    ends = [MAXI, MAXI - 1, MAXI - 2, MAXI - 7, MINI, MINI + 1, MINI + 2, MINI + 7, 0, 5, -5, 100]
    for b in ends:
        for s in (1, -1, 2, -2, 3, -5, 7, MAXI, MINI, MAXI - 1, MINI + 1, 1 << 62):
            for a in {b - 3 * s, b - s, b, b + s, b - 2 * s + 1, 0, MAXI, MINI}:
                if MINI <= a <= MAXI:
                    cases.append(("for-lattice", "for", 30, a, b, s, cap))
        for code, s in FORLIT.items():
            for a in {b - 3 * s, b - s, b, b + s, 0}:
                if MINI <= a <= MAXI:
                    cases.append(("for-literal-step", "for", code, a, b, s, cap))
    for _ in range(ctx.scale(300, 5000)):
        s = rng.choice([1, -1, 2, 3, -4, 10, rng.randint(-50, 50) or 1, wrap(rng.getrandbits(64)) or 1])
        a = rng.choice([rng.randint(-100, 100), wrap(rng.getrandbits(64))])
        b = rng.choice([a + s * rng.randint(-2, 9), rng.randint(-100, 100), wrap(rng.getrandbits(64))])
        b = max(MINI, min(MAXI, b))
        cases.append(("for-random", "for", 30, a, b, s, cap))
    return cases


def for_in_partial_domain(b, s):
    """the hypothesis of C01_fornum_partial: the limit is at least |step| away from the type limit"""
    return (b + s <= MAXI) if s > 0 else (b + s >= MINI)


def model_line(c):
    _, kind, op, a, b, cc, d = c
    if kind == "bin":
        return "bin %s %s %s" % (op, hexs(a), hexs(b))
    if kind == "un":
        return "un %s %s" % (op, hexs(a))
    if kind == "mix":
        return "mix %s %s %s" % (op, hexs(a), double_parts(b))
    if kind == "rne":
        return "rne %s" % hexs(a)
    if kind == "for":
        return "for %s %s %s %d" % (hexs(a), hexs(b), hexs(cc), d)
    raise KeyError(kind)


def impl_line(c):
    _, kind, op, a, b, cc, d = c
    if kind == "bin":
        if op == "shlk":
            return "%d %d 0 0 0" % (100 + b, a)
        if op == "shrk":
            return "%d %d 0 0 0" % (200 + b, a)
        return "%d %d %d 0 0" % (BINCODE[op], a, b)
    if kind == "un":
        return "%d %d 0 0 0" % (UNCODE[op], a)
    if kind == "mix":
        return "%d %d %d 0 0" % (MIXCODE[op], a, b)
    if kind == "rne":
        return "25 %d 0 0 0" % a
    if kind == "for":
        return "%d %d %d %d %d" % (op, a, b, cc, d)
    raise KeyError(kind)


def split_impl_output(cases, text):
    """one result per case; a `for` case spans the lines up to its 'e' line"""
    lines = text.split("\n")
    out = []
    i = 0
    for c in cases:
        if c[1] == "for":
            vals = []
            while i < len(lines) and lines[i].startswith("v\t"):
                vals.append(int(lines[i].split("\t")[1]))
                i += 1
            if i < len(lines) and lines[i].startswith("e\t"):
                out.append((vals, lines[i].split("\t")[1] == "true"))
                i += 1
            else:
                out.append(None)
        else:
            out.append(lines[i] if i < len(lines) else None)
            i += 1
    return out


def impl_value(c, raw):
    """canonical form of an implementation result, comparable with the model's"""
    if raw is None:
        return None
    kind = c[1]
    if kind == "for":
        return raw
    if raw in ("true", "false"):
        return 1 if raw == "true" else 0
    try:
        return int(raw)
    except ValueError:
        return raw


def model_values(c, line):
    """(rt, lua) in the canonical form of impl_value"""
    kind = c[1]
    if kind in ("bin", "un"):
        m = re.match(r"rt=(\S+) lua=(\S+)", line)

        def cv(s):
            return unhex(s[2:]) if s.startswith("v:") else s
        return cv(m.group(1)), cv(m.group(2))
    if kind == "mix":
        m = re.match(r"rt=(\d) lua=(\d) exact=(\d)", line)
        return int(m.group(1)), int(m.group(2))
    if kind == "rne":
        v = unhex(line)
        # the model's rne53 is the integer value; the implementations print the bit pattern of the double
        return double_bits(float(v)) if v == int(float(v)) else ("inexact", v), None
    if kind == "for":
        m = re.match(r"lua=(\S*)/(\d) nelua=(\S*)/(\d)/(\d)", line)
        if not m:
            return line, line

        def vl(s):
            return [unhex(x) for x in s.split(",")] if s else []
        return (vl(m.group(3)), m.group(4) == "1"), (vl(m.group(1)), m.group(2) == "1")
    raise KeyError(kind)


def fmt_case(c):
    _, kind, op, a, b, cc, d = c
    if kind == "mix":
        import struct
        return "%s i=%d f=%r" % (op, a, struct.unpack("<d", struct.pack("<q", b))[0])
    if kind == "for":
        return "for(code %s) a=%d b=%d step=%d" % (op, a, b, cc)
    return "%s %d %d" % (op, a, b)


def stream_numbers(ctx, driver, interp, cov):
    numdrv = build_numdrv(ctx, interp)
    cases = []
    cp = os.path.join(vlib.VERIF, "corpus", ID, "num.txt")
    if os.path.exists(cp):
        for line in vlib.read(cp).split("\n"):
            w = line.split()
            if w and not line.startswith("#"):
                cases.append(("corpus", w[0], int(w[1]) if w[0] == "for" else w[1]) + tuple(int(x) for x in w[2:6]))
    cases += gen_num_cases(ctx)
    mtext = "\n".join(model_line(c) for c in cases) + "\n"
    itext = "\n".join(impl_line(c) for c in cases) + "\n"
    rc0, mout, merr = vlib.sh([driver], input=mtext, timeout=1800)
    rc1, nout, nerr = vlib.sh([numdrv], input=itext, timeout=1800)
    rc2, lout, lerr = vlib.run_lua(os.path.join(vlib.VERIF, "harness", ID, "numdrv.lua"), input=itext, interp=interp, timeout=1800)
    ml = mout.split("\n")
    nl = split_impl_output(cases, nout)
    ll = split_impl_output(cases, lout)
    if rc0 or rc1 or rc2 or len(ml) < len(cases):
        ctx.violation("harness-run:numbers", "harness", "number drivers failed: model rc=%s nelua rc=%s lua rc=%s %s %s %s" %
                      (rc0, rc1, rc2, merr[-200:], nerr[-300:], lerr[-300:]), failing_input=False)
        return
    dist, per_op = {}, {}
    n_oracle = n_mm = n_predicted = 0
    nontrivial = set()
    for c, m, n, l in zip(cases, ml, nl, ll):
        stream, kind, op = c[0], c[1], c[2]
        dist[stream] = dist.get(stream, 0) + 1
        per_op["%s:%s" % (kind, op)] = per_op.get("%s:%s" % (kind, op), 0) + 1
        try:
            mrt, mlua = model_values(c, m)
        except Exception:
            mrt = mlua = "unparsable:" + m
        nv, lv = impl_value(c, n), impl_value(c, l)
        if c[3] not in (0, 1) and (kind != "bin" or c[4] not in (0, 1)):
            nontrivial.add(c[1:])
        in_domain = True
        if kind == "mix":
            in_domain = abs(c[3]) <= 2 ** 53
        elif kind == "for":
            in_domain = for_in_partial_domain(c[4], c[5])
        if kind == "rne":
            # both implementations convert with the C compiler's (double)i; the model must predict it
            if not (nv == lv == mrt):
                n_mm += 1
                if n_mm <= 3:
                    ctx.violation("model-mismatch:rne53", "correspondence",
                                  "int->double conversion of %d: model %s, nelua %s, lua %s" % (c[3], mrt, nv, lv),
                                  detail={"case": fmt_case(c)}, failing_input=False)
            continue
        if nv != lv:
            if in_domain:
                n_oracle += 1
                if n_oracle <= 5:
                    ctx.violation("num:%s" % fmt_case(c), "oracle",
                                  "%s: compiled Nelua gives %s, reference Lua 5.4 gives %s" % (fmt_case(c), nv, lv),
                                  detail={"case": fmt_case(c), "nelua": nv, "lua": lv, "model_rt": mrt, "model_lua": mlua,
                                          "replay": "echo '%s' | <numdrv built from harness/C01/numdrv.nelua> ; echo '%s' | nelua-lua harness/C01/numdrv.lua" % (impl_line(c), impl_line(c))})
                continue
            n_predicted += 1   # outside the domain of the _partial theorem: must be predicted exactly by the model
        if mrt != nv or mlua != lv:
            n_mm += 1
            if n_mm <= 3:
                ctx.violation("model-mismatch:%s:%s" % (kind, op), "correspondence",
                              "model no longer corresponds to the code on %s: model rt=%s lua=%s, nelua=%s, lua=%s" % (fmt_case(c), mrt, mlua, nv, lv),
                              detail={"case": fmt_case(c), "no_longer_checks": "correspondence stream C01/%s" % kind}, failing_input=False)
    # the two recorded witnesses, replayed every run
    w = ("w", "mix", "le_if", 2 ** 53 + 1, double_bits(2.0 ** 53), 0, 0)
    r1 = vlib.sh([numdrv], input=impl_line(w) + "\n")[1].strip()
    r2 = vlib.run_lua(os.path.join(vlib.VERIF, "harness", ID, "numdrv.lua"), input=impl_line(w) + "\n", interp=interp)[1].strip()
    if r1 != r2:
        ctx.violation(WITNESS_MIXED, "oracle", "9007199254740993 <= 9007199254740992.0 at run time: Nelua %s, Lua %s" % (r1, r2),
                      detail={"replay": "local a: integer = 9007199254740993 local b: number = 9007199254740992.0 print(a <= b)"})
    w = ("w", "for", 30, MAXI - 1, MAXI, 1, 5)
    r1 = split_impl_output([w], vlib.sh([numdrv], input=impl_line(w) + "\n")[1])[0]
    r2 = split_impl_output([w], vlib.run_lua(os.path.join(vlib.VERIF, "harness", ID, "numdrv.lua"), input=impl_line(w) + "\n", interp=interp)[1])[0]
    if r1 != r2:
        ctx.violation(WITNESS_FOR, "oracle", "for i=maxinteger-1,maxinteger: Nelua iterates %s (ended=%s), Lua %s" % (r1[0], r1[1], r2[0]),
                      detail={"replay": "for i = math.maxinteger-1, math.maxinteger do print(i) end  (Nelua: never stops)"})
    # division by zero: both sides must stop with an error
    rc, o, e = vlib.sh([numdrv], input="7 5 0 0 0\n")
    rl = vlib.run_lua(os.path.join(vlib.VERIF, "harness", ID, "numdrv.lua"), input="7 5 0 0 0\n", interp=interp)[1]
    if not (rc != 0 and "division by zero" in e and rl.startswith("error")):
        ctx.violation("num:idiv 5 0", "oracle", "5 // 0: Nelua rc=%s stderr=%r, Lua %r" % (rc, e[-100:], rl[:80]))
    cov["numbers"] = {"cases": len(cases), "streams": dist, "per_op": per_op, "oracle_failures": n_oracle,
                      "model_mismatches": n_mm, "deviations_predicted_by_refuted_theorems": n_predicted}
    return len(cases), len(nontrivial), [fmt_case(c) for c in cases[:2] + cases[-2:]]


def stream_parse(ctx, driver, interp, cov):
    rng = ctx.rng
    chains = []
    cp = os.path.join(vlib.VERIF, "corpus", ID, "chains.txt")
    if os.path.exists(cp):
        chains += [ln.split() for ln in vlib.read(cp).split("\n") if ln.strip() and not ln.startswith("#")]
    names = list(scrape.BINOPS)
    # every ordered pair of binary operators, with and without a unary prefix, then random chains
    for o1 in names:
        for o2 in names:
            chains.append(["n1", o1, "n2", o2, "n3"])
    for o1 in names:
        for u in progs.UN_TOKEN:
            chains.append(["u:" + u, "n1", o1, "n2"])
            chains.append(["n1", o1, "u:" + u, "n2", o1, "n3"])
    for _ in range(ctx.scale(600, 20000)):
        chains.append(progs.gen_chain(rng, maxops=rng.choice([3, 6, 12, 40])))
    mtext = "\n".join("parse " + " ".join(c) for c in chains) + "\n"
    rc, mout, merr = vlib.sh([driver], input=mtext, timeout=900)
    ml = mout.split("\n")
    src = "\n".join("local _ = " + progs.chain_source(c) for c in chains) + "\n"
    f = os.path.join(ctx.work, "chains.nelua")
    open(f, "w").write(src)
    rc2, aout, aerr = vlib.nelua(["--print-ast", f], interp=interp, timeout=900)
    if rc or rc2:
        ctx.violation("harness-run:parse", "harness", "parse stream failed: %s %s" % (merr[-300:], aerr[-500:]), failing_input=False)
        return 0, 0, []
    real = progs.ast_chains(aout)
    nm = lambda k: "v%d" % k
    ltext = "\n".join(progs.chain_source(c, nm) + "\t" + progs.sexpr_source(r, nm) for c, r in zip(chains, real)) + "\n"
    rc3, lout, lerr = vlib.run_lua(os.path.join(vlib.VERIF, "harness", ID, "parsechk.lua"), input=ltext, interp=interp, timeout=900)
    ll = lout.split("\n")
    n_oracle = n_mm = 0
    for c, m, r, l in zip(chains, ml, real, ll):
        mm = re.match(r"nelua=(.*) lua=(.*)$", m)
        mn, mlua = (mm.group(1), mm.group(2)) if mm else (m, m)
        text = progs.chain_source(c)
        if l != "1":
            n_oracle += 1
            if n_oracle <= 5:
                ctx.violation("parse:%s" % text, "oracle",
                              "`%s`: the Nelua front end parses it as %s, which the reference Lua parser does not (%s)" % (text, r, l),
                              detail={"chain": text, "nelua_ast": r, "lua_climb_model": mlua,
                                      "replay": "nelua --print-ast on `local _ = %s`; Lua: string.dump(load('return ...')) of the chain vs of the tree" % text})
        elif mn != r or mlua != r:
            n_mm += 1
            if n_mm <= 3:
                ctx.violation("model-mismatch:parse", "correspondence",
                              "`%s`: real front end %s, climb(nelua ladder) %s, climb(lua table) %s" % (text, r, mn, mlua),
                              detail={"chain": text, "no_longer_checks": "correspondence stream C01/parse"}, failing_input=False)
    cov["parse"] = {"chains": len(chains), "oracle_failures": n_oracle, "model_mismatches": n_mm,
                    "max_tokens": max(len(c) for c in chains)}
    return len(chains), len(set(tuple(c) for c in chains)), [progs.chain_source(chains[-1])]


# Exact programs on which the unchanged tree deviates from the reference interpreter (each confirmed
# against the real compiler; listed in known_findings/C01.json under the same key).  Replayed on every
# run: the violation disappears by itself once the defect is repaired.
WITNESS_PROGRAMS = [
    ("program: print(-(-9223372036854775807-1))",
     "print(-(-9223372036854775807-1))\n", "print(-(-9223372036854775807-1))\n"),
    ("program: print(9223372036854775807 * 3)",
     "print(9223372036854775807 * 3)\n", "print(9223372036854775807 * 3)\n"),
    ("program: print(-1 << -63)", "print(-1 << -63)\n", "print(-1 << -63)\n"),
    ("program: print(123456789012345.0 .. \"\")",
     "require 'string'\nprint(123456789012345.0 .. \"\")\n", "print(123456789012345.0 .. \"\")\n"),
    ("program: print(0.0/0.0)", "print(0.0/0.0)\n", "print(0.0/0.0)\n"),
    ("program: print(counter, inc()) with inc() incrementing counter",
     "local counter: integer = 0\nlocal function inc(): integer counter = counter + 1 return counter end\nprint(counter, inc())\n",
     "local counter = 0\nlocal function inc() counter = counter + 1 return counter end\nprint(counter, inc())\n"),
    ("program: for i=1,5,s with local s: integer <const> = 2",
     "local s: integer <const> = 2\nfor i=1,5,s do print(i) end\n", "local s <const> = 2\nfor i=1,5,s do print(i) end\n"),
    # evaluation order (theorems C01_order_refuted_*); the fourth field is the C compiler
    ("program: print(x + f()) with f assigning the global x",
     "global x: integer = 1\nlocal function f(): integer x = 10 return 100 end\nprint(x + f())\n",
     "x = 1\nlocal function f() x = 10 return 100 end\nprint(x + f())\n", "gcc"),
    ("program: print(y + fy()) with fy assigning the chunk-level local y [clang]",
     "local y: integer = 1\nlocal function fy(): integer y = 10 return 100 end\nprint(y + fy())\n",
     "local y = 1\nlocal function fy() y = 10 return 100 end\nprint(y + fy())\n", "clang"),
    ("program: g(x, f(), h()) with f and h assigning the global x",
     "global x: integer = 1\nlocal function f(): integer x = 10 return 100 end\nlocal function h(): integer x = 20 return 200 end\n"
     "local function g(a: integer, b: integer, c: integer) print(a, b, c) end\ng(x, f(), h())\n",
     "x = 1\nlocal function f() x = 10 return 100 end\nlocal function h() x = 20 return 200 end\n"
     "local function g(a, b, c) print(a, b, c) end\ng(x, f(), h())\n", "gcc"),
    # reported by the round-2 reviewers on unmodified HEAD, each confirmed against the real compiler
    ('program: g(h(f(1)), h(f(2))) with h free of side effects and f printing',
     "local function f(x: integer): integer print('f', x) return x end\nlocal function h(x: integer): integer return x + 1 end\nlocal function g(a: integer, b: integer) print(a, b) end\ng(h(f(1)), h(f(2)))\n",
     "local function f(x) print('f', x) return x end\nlocal function h(x) return x + 1 end\nlocal function g(a, b) print(a, b) end\ng(h(f(1)), h(f(2)))\n", 'gcc'),
    ('program: print(f(1) + f(2) * f(3), c) with f counting its calls in c',
     'local c: integer = 0\nlocal function f(x: integer): integer c = c + 1 return x end\nprint(f(1) + f(2) * f(3), c)\n',
     'local c = 0\nlocal function f(x) c = c + 1 return x end\nprint(f(1) + f(2) * f(3), c)\n', 'gcc'),
    ('program: top-level local a, b = 1, 2; local a, b = b, a; print(a, b)',
     'local a, b = 1, 2\nlocal a, b = b, a\nprint(a, b)\n',
     'local a, b = 1, 2\nlocal a, b = b, a\nprint(a, b)\n', 'gcc'),
    ('program: local x = 1; local x_1 = 5; do local x = x + 1; print(x, x_1) end inside a function',
     'local function main()\n  local x = 1\n  local x_1 = 5\n  do\n    local x = x + 1\n    print(x, x_1)\n  end\nend\nmain()\n',
     'local function main()\n  local x = 1\n  local x_1 = 5\n  do\n    local x = x + 1\n    print(x, x_1)\n  end\nend\nmain()\n', 'gcc'),
    ('program: top-level local acc = 0 re-entered by a backward goto',
     'local n = 0\n::again::\nlocal acc = 0\nacc = acc + 10\nn = n + 1\nprint(n, acc)\nif n < 3 then goto again end\n',
     'local n = 0\n::again::\nlocal acc = 0\nacc = acc + 10\nn = n + 1\nprint(n, acc)\nif n < 3 then goto again end\n', 'gcc'),
    ('program: for i = 1, 2.5 do print(i) end',
     'for i = 1, 2.5 do print(i) end\nfor i = 1, 3 do print(i) end\n',
     'for i = 1, 2.5 do print(i) end\nfor i = 1, 3 do print(i) end\n', 'gcc'),
    ("program: local v: number = -0.0 print(v - 0)",
     "local v: number = -0.0\nprint(v - 0)\n", "local v = -0.0\nprint(v - 0)\n", "gcc"),
    # order of the values of a multi-variable declaration (repaired in /repo d685d37, f54f9c0: must agree; theorem C01_vardecl_order)
    ("program: local a, b = f(), g() with b never read, inside a function (f and g print)",
     "local function f(): integer print('f') return 1 end\nlocal function g(): integer print('g') return 2 end\n"
     "local function h() local a, b = f(), g() print(a) end\nh()\n",
     "local function f() print('f') return 1 end\nlocal function g() print('g') return 2 end\n"
     "local function h() local a, b = f(), g() print(a) end\nh()\n", "gcc"),
    ("program: local a, b, c = f(), two() inside a function (f and two print)",
     "local function f(): integer print('f') return 1 end\nlocal function two(): (integer, integer) print('two') return 3, 4 end\n"
     "local function h() local a, b, c = f(), two() print(a, b, c) end\nh()\n",
     "local function f() print('f') return 1 end\nlocal function two() print('two') return 3, 4 end\n"
     "local function h() local a, b, c = f(), two() print(a, b, c) end\nh()\n", "gcc"),
    ("program: show(bump(), bump()) with bump doing g.n = g.n + 1; return g.n",
     "local G = @record{n: integer}\nlocal g: G\nlocal function bump(): integer\n  g.n = g.n + 1\n  return g.n\nend\n"
     "local function show(a: integer, b: integer) print(a, b) end\nshow(bump(), bump())\n",
     "local g = {n = 0}\nlocal function bump()\n  g.n = g.n + 1\n  return g.n\nend\n"
     "local function show(a, b) print(a, b) end\nshow(bump(), bump())\n", "gcc"),
]


def stream_witness_programs(ctx, interp, cov):
    res = {}
    for i, w in enumerate(WITNESS_PROGRAMS):
        key, nsrc, lsrc = w[:3]
        cc = w[3] if len(w) > 3 else "gcc"
        d = os.path.join(ctx.work, "witness")
        os.makedirs(d, exist_ok=True)
        nf, lf = os.path.join(d, "w%d.nelua" % i), os.path.join(d, "w%d.lua" % i)
        open(nf, "w").write(nsrc)
        open(lf, "w").write(lsrc)
        rc, o, e = vlib.nelua(["--no-cache", "--cache-dir", os.path.join(d, "cache%d" % i), "--cc", cc, nf], interp=interp, timeout=120)
        rl, ol, el = vlib.run_lua(lf, interp=interp, timeout=60)
        same = (rc == 0 and rl == 0 and o == ol)
        res[key] = "agrees" if same else "differs"
        if not same:
            ctx.violation(key, "oracle",
                          "%s: Nelua rc=%d prints %r%s; reference Lua prints %r" %
                          (key, rc, o[:200], (" (" + e.strip().split("\n")[0][:200] + ")") if rc else "", ol[:200]),
                          detail={"nelua_source": nsrc, "lua_source": lsrc, "nelua_stdout": o, "nelua_stderr": e[-600:], "lua_stdout": ol,
                                  "replay": "nelua <file with nelua_source>; nelua-lua <file with lua_source>"})
    cov["witness_programs"] = res
    return len(WITNESS_PROGRAMS)


def canon_out(text):
    """the sign of a NaN is not part of the comparison (unspecified by IEEE 754 for most operations)"""
    return re.sub(r"-nan\b", "nan", text)


def run_program_pair(args):
    """build+run one generated program with the real compiler and under the reference interpreter"""
    d, idx, ntext, ltext, interp, cc, extra = args
    nf, lf = os.path.join(d, "p%d.nelua" % idx), os.path.join(d, "p%d.lua" % idx)
    open(nf, "w").write(ntext)
    open(lf, "w").write(ltext)
    rc, o, e = vlib.nelua(["--no-cache", "--cache-dir", os.path.join(d, "cache-%d-%s" % (idx, cc)), "--cc", cc] + list(extra) + [nf],
                          interp=interp, cwd=d, timeout=120, mem_mb=4000, max_out=64 * 1024 * 1024)
    env = vlib.lua_env()
    env["LUA_PATH"] = os.path.join(d, "?.lua") + ";" + env["LUA_PATH"]
    rl, ol, el = vlib.sh([interp, lf], env=env, cwd=d, timeout=60, mem_mb=4000, max_out=64 * 1024 * 1024)
    return idx, rc, o, e, rl, ol, el


def write_modules(d):
    mn, ml = progs.gen_module("modx")
    open(os.path.join(d, "modx.nelua"), "w").write(mn)
    open(os.path.join(d, "modx.lua"), "w").write(ml)
    mn, ml = progs.gen_module_noret("mody")
    open(os.path.join(d, "mody.nelua"), "w").write(mn)
    open(os.path.join(d, "mody.lua"), "w").write(ml)


def stream_programs(ctx, interp, cov):
    rng = ctx.rng
    d = os.path.join(ctx.work, "programs")
    os.makedirs(d, exist_ok=True)
    write_modules(d)
    progl = []
    cdir = os.path.join(vlib.VERIF, "corpus", ID)
    for f in sorted(os.listdir(cdir)) if os.path.isdir(cdir) else []:
        if f.endswith(".nelua") and os.path.exists(os.path.join(cdir, f[:-6] + ".lua")):
            progl.append(("corpus:" + f, vlib.read(os.path.join(cdir, f)), vlib.read(os.path.join(cdir, f[:-6] + ".lua")), {}))
    import random
    for i in range(ctx.scale(120, 600)):
        seed = rng.getrandbits(40)
        n, l, st = progs.gen_program(random.Random(seed), rng.choice([12, 25, 40]), "modx" if rng.random() < .3 else None)
        progl.append(("seed:%d" % seed, n, l, st))
    jobs = [(d, i, p[1], p[2], interp, "gcc", ()) for i, p in enumerate(progl)]
    if ctx.thorough:
        jobs += [(d, i + 100000, p[1], p[2], interp, "clang", ()) for i, p in enumerate(progl) if i % 4 == 0]
    agg = {}
    n_fail = n_skipped = 0
    with cf.ThreadPoolExecutor(max_workers=4) as ex:
        for idx, rc, o, e, rl, ol, el in ex.map(run_program_pair, jobs):
            name, ntext, ltext, st = progl[idx % 100000]
            for k, v in st.items():
                agg[k] = agg.get(k, 0) + v
            blown = lambda r_, err: r_ in (124, 125) or "MemoryError" in err or "not enough memory" in err or "OUTPUT LIMIT" in err
            if blown(rl, el) and blown(rc, e):
                # both sides exceed the time / memory / output budget: the generator produced an unbounded program
                n_skipped += 1
                ctx.note("generated program %s exceeds the resource budget on both sides (generator defect, skipped)" % name)
                continue
            if rl != 0 and not blown(rl, el):
                ctx.note("generated program %s raises an error under Lua (generator defect, skipped): %s" % (name, el[-200:]))
                n_skipped += 1
                continue
            # (a blow-up on one side only is a difference in behaviour: reported below)
            if rc != 0 or rl != 0 or canon_out(o) != canon_out(ol):
                n_fail += 1
                if n_fail <= 4:
                    a, b = canon_out(o).split("\n"), canon_out(ol).split("\n")
                    first = next((i for i, (x, y) in enumerate(zip(a, b)) if x != y), min(len(a), len(b)))
                    ctx.violation("program:%s%s" % (name, "" if idx < 100000 else ":clang"), "oracle",
                                  "generated program %s: %s" % (name, ("compiler/run failed rc=%d: %s" % (rc, e.strip().split("\n")[-1][:300])) if rc else
                                                               "output line %d differs: Nelua %r, Lua %r" % (first + 1, a[first] if first < len(a) else None, b[first] if first < len(b) else None)),
                                  detail={"nelua_source": ntext, "lua_source": ltext, "nelua_stderr": e[-1500:],
                                          "replay": "python3 -c \"import random,sys; sys.path.insert(0,'harness/C01'); import progs; print(progs.gen_program(random.Random(%s), ...)[0])\"" % name.split(":")[-1]})
    cov["programs"] = {"programs": len(progl), "builds": len(jobs), "failures": n_fail, "skipped_generator_defects": n_skipped, "constructs": agg}
    return len(jobs), len(progl), [progl[-1][0]]


def stream_order(ctx, driver, interp, cov):
    """core 3: expressions with calls that print and write variables.  The model gives Lua's result
    and the set of results the emitted C may produce (all oracles of length 6 over 3 choices)."""
    rng = ctx.rng
    import random
    cases = [progs.gen_order_case(random.Random(rng.getrandbits(40))) for _ in range(ctx.scale(120, 2000))]
    rc, mout, merr = vlib.sh([driver], input="\n".join(progs.order_model_line(c) for c in cases) + "\n", timeout=900)
    ml = mout.split("\n")
    d = os.path.join(ctx.work, "order")
    os.makedirs(d, exist_ok=True)
    per = 12
    jobs = []
    for bi in range(0, len(cases), per):
        ntext, ltext = [], []
        for k, c in enumerate(cases[bi:bi + per]):
            n, l = progs.order_programs(c)
            pre = "k%d_" % k
            ren = lambda t: re.sub(r"\b(x\d+|f\d+)\b", lambda m: pre + m.group(1), t).replace("'" + pre + "f", "'f")
            ntext.append(ren(n) + "print('#')\n")
            ltext.append(ren(l) + "print('#')\n")
        jobs.append((d, bi, "".join(ntext), "".join(ltext), interp, "gcc", ()))
    n_oracle = n_mm = n_pred = n_dom = n_unknown = 0
    n_unk_dev = [0]
    with cf.ThreadPoolExecutor(max_workers=4) as ex:
        for idx, rcn, o, e, rl, ol, el in ex.map(run_program_pair, jobs):
            if rcn != 0 or rl != 0:
                ctx.violation("harness-run:order", "harness", "order batch %d failed: nelua rc=%d %s lua rc=%d %s" % (idx, rcn, e[-300:], rl, el[-200:]), failing_input=False)
                continue
            no, lo = o.split("#\n"), ol.split("#\n")
            for k, c in enumerate(cases[idx:idx + per]):
                m = re.match(r"lua=(\S+) nelua=(.*)$", ml[idx + k])
                if not m:
                    ctx.violation("harness-run:order-model", "harness", "model output: %r" % ml[idx + k][:200], failing_input=False)
                    continue
                mlua, mset = m.group(1), m.group(2).split()
                rn, rlua = progs.order_canon(no[k]), progs.order_canon(lo[k])
                unknown = mset == ["?"]             # more than 8 choice points: the set of C results is not enumerated
                n_unknown += unknown
                in_domain = mset == [mlua]          # every C evaluation order gives Lua's result
                n_dom += in_domain
                line = progs.order_model_line(c)
                if rlua != mlua or (not unknown and rn not in mset):
                    n_mm += 1
                    if n_mm <= 3:
                        ctx.violation("model-mismatch:order", "correspondence",
                                      "order case `%s`: Lua %s (model %s), Nelua+gcc %s (model allows %s)" % (line, rlua, mlua, rn, mset),
                                      detail={"nelua_source": progs.order_programs(c)[0], "no_longer_checks": "correspondence stream C01/order"}, failing_input=False)
                elif rn != rlua:
                    if in_domain:
                        n_oracle += 1
                        ctx.violation("order:%s" % line, "oracle", "order case `%s`: Nelua %s, Lua %s" % (line, rn, rlua),
                                      detail={"nelua_source": progs.order_programs(c)[0]})
                    elif unknown:
                        n_unk_dev[0] += 1
                    else:
                        n_pred += 1
    cov["order"] = {"cases": len(cases), "all_orders_agree_with_lua": n_dom, "c_result_set_not_enumerated": n_unknown, "deviations_in_not_enumerated_cases": n_unk_dev[0], "oracle_failures": n_oracle, "model_mismatches": n_mm,
                    "deviations_predicted_by_refuted_theorems": n_pred}
    return len(cases), len(set(progs.order_model_line(c) for c in cases)), [progs.order_model_line(cases[0])]


def stream_vardecl(ctx, driver, interp, cov):
    """multi-variable declarations whose values print when evaluated: the compiled program and reference Lua
    against the effect order of coq/C01/VarDecl.v (placement of the statements scraped from cgenerator.lua)"""
    import random
    import vardecl
    rng = random.Random(ctx.rng.getrandbits(40))
    d = os.path.join(ctx.work, "vardecl")
    os.makedirs(d, exist_ok=True)
    per = 60
    n_cases = n_mm = n_pred = n_same = 0
    sample = []
    for bi in range(ctx.scale(1, 8)):
        cases = [vardecl.gen_case(rng) for _ in range(per)]
        ntext, ltext = vardecl.batch_programs(cases)
        rc, mo, me = vlib.sh([driver], input="\n".join(vardecl.model_line(c) for c in cases) + "\n", timeout=120)
        ml = [vardecl.parse_model(x) for x in mo.strip().split("\n")]
        idx, rcn, o, e, rl, ol, el = run_program_pair((d, bi, ntext, ltext, interp, "gcc", ()))
        if rcn != 0 or rl != 0 or len(ml) != len(cases):
            ctx.violation("harness-run:vardecl", "harness", "vardecl batch failed: nelua rc=%d %s lua rc=%d %s" % (rcn, e[-300:], rl, el[-200:]), failing_input=False)
            continue
        on, olua = vardecl.parse_output(o, len(cases)), vardecl.parse_output(ol, len(cases))
        for k, c in enumerate(cases):
            n_cases += 1
            m = ml[k]
            line = vardecl.model_line(c)
            if not sample:
                sample.append(line)
            if m["wf"] != "1" or on[k][0] != m["dce"] or olua[k][0] != m["src"]:
                n_mm += 1
                if n_mm <= 3:
                    differ = on[k][0] != olua[k][0]
                    ctx.violation(("vardecl-order:%s" % line) if differ else "model-mismatch:vardecl", "oracle" if differ else "correspondence",
                                  "declaration `%s` (%s): Nelua evaluates %s (model %s), Lua %s (model %s)" % (line, c["form"], on[k][0], m["dce"], olua[k][0], m["src"]),
                                  detail={"nelua_source": vardecl.programs(c, k)[0], "no_longer_checks": "correspondence stream C01/vardecl"}, failing_input=differ)
            elif on[k][1] != olua[k][1]:
                ctx.violation("vardecl-values:%s" % line, "oracle", "declaration `%s`: the variables hold %r in Nelua and %r in Lua" % (line, on[k][1], olua[k][1]),
                              detail={"nelua_source": vardecl.programs(c, k)[0]})
            elif m["dce"] != m["src"]:
                n_pred += 1         # cannot happen while C01_vardecl_order holds for the scraped placement
                ctx.violation("vardecl-order:%s" % line, "oracle", "declaration `%s`: Nelua evaluates %s, Lua %s" % (line, on[k][0], olua[k][0]),
                              detail={"nelua_source": vardecl.programs(c, k)[0]})
            else:
                n_same += 1
    cov["vardecl"] = {"declarations": n_cases, "source_order": n_same,
                      "order_differs_from_lua": n_pred, "model_mismatches": n_mm}
    return n_cases, n_cases, sample


def correspond(ctx):
    driver = vlib.ocaml_build(ID)
    interp = vlib.ensure_interp()
    cov = {}
    n1, d1, s1 = stream_numbers(ctx, driver, interp, cov) or (0, 0, [])
    n2, d2, s2 = stream_parse(ctx, driver, interp, cov)
    n2 += stream_witness_programs(ctx, interp, cov)
    n3, d3, s3 = stream_programs(ctx, interp, cov)
    n2, d2, s2 = n2 + n3, d2 + d3, s2 + s3
    n3, d3, s3 = stream_order(ctx, driver, interp, cov)
    n2, d2, s2 = n2 + n3, d2 + d3, s2 + s3
    n3, d3, s3 = stream_vardecl(ctx, driver, interp, cov)
    n2, d2, s2 = n2 + n3, d2 + d3, s2 + s3
    return {
        "evaluations": n1 + n2,
        "distinct_nontrivial": d1 + d2,
        "rule": "numbers: int64 boundary lattice cross products + dense/small/near random, literal shift counts 0..63, mixed int/float lattice around 2^53 and the int64 limits, for loops at the type limits; parse: all operator pairs, unary prefixes, random chains up to 40 operators with parentheses; non-trivial = distinct cases with no operand in {0,1}",
        "samples": s1 + s2,
        "distribution": cov,
        "traces_validated_against_impl": n1 + n2,
    }
