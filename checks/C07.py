"""C07 - compilation is deterministic.

(T) the facts the theorems are instantiated at are scraped from /repo: ospairs sorts its keys
    (Gen.OSPAIRS_SORTS); memoize walks its cache with pairs() and matches with
    `==` or shallow_compare_nomt; Symbol:is_used has its cycle guard.
(C) (a) the extracted models of ospairs / memoize / is_used / type-id assignment are run on the
        same cases as the real Lua functions, under interpreters built with different forced
        hash seeds (tables keyed by strings) and address-space layouts (tables keyed by tables);
        the property oracle (sorted & complete, one evaluation per class, graph reachability,
        rank of first occurrence) is evaluated on the implementation's output;
    (b) differential compilations: repository tests/examples and generated programs (valid and
        erroneous) are compiled by interpreter variants (forced seeds k, ASLR on/off, cold/warm
        cache directory); the generated C file (code + heading with the C compiler command and
        hash), stderr and the exit status must coincide.  This IS the property, observed."""
import concurrent.futures
import hashlib
import importlib.util
import os
import re
import shutil
import subprocess

import vlib

ID = "C07"
ALLOWED_AXIOMS = []
TRUSTED_BASE = [
    "coqc 8.16.1 kernel (vm_compute only in Examples); no axioms: every theorem of coq/C07/Properties.v is 'Closed under the global context'",
    "translator checks/C07.py:gen (regex scrape of utils/iterators.lua, utils/memoize.lua, symbol.lua, types.lua)",
    "extraction: Require Extraction + ExtrOcamlBasic only; coq/C07/driver.ml (text <-> model values), harness/C07/ops.lua (calls the real Lua functions), harness/C07/genprog.py",
    "interpreters rebuilt from /repo/src by gcc with -Dluai_makeseed(L)=<k>u; setarch -R to switch ASLR off; sha256",
    "modelled rather than verified: the Lua functions are mirrored by hand in coq/C07/Model.v; Lua's table.sort is modelled as insertion sort (same result on a total order)",
]
THEOREM_CLASSES = {
    "C07_ospairs_order_free": "main", "C07_ospairs_yields_sorted_entries": "main",
    "C07_memoize_order_free": "main", "C07_memoize_order_free_lua_values": "main", "C07_memoize_once_per_class": "corollary",
    "C07_is_used_is_reachability": "main", "C07_is_used_order_free": "main", "C07_is_used_total": "main",
    "C07_is_used_all_is_reachability": "corollary",
    "C07_typeid_same_codename_same_id": "corollary",
    "C07_resolve_symbols_order_free_conditional": "corollary",
    "C07_resolve_symbols_order_free_dependency_driven_abstract": "corollary",
}
UNPROVED = [
    "EVERY clause of the statement at the level of the compiler (generated C, symbol and type names, compiler command line, diagnostics, --print-* outputs identical across processes / hash seeds / ASLR / cold-warm cache): observed by differential compilations only (3 interpreters x ASLR on/off x cold/warm, repository programs + generated programs, build-mode sequences, --cc names, print modes); the theorems are about five helper functions",
    "resolve_steps_commute for the real Symbol:resolve_type (choice among several possible types, forced fallback): hypothesis of the conditional theorem; the dependency-driven instance is abstract (typeless state) and not corresponded",
    "that memoize's real match on Type objects (Type.__eq) is an equivalence: discharged for the Lua value model on well-formed arguments only (C07_memoize_order_free_lua_values); NaN arguments break reflexivity",
    "determinism of the ORDER in which types are first initialised (type ids) and in which declarations are added (ccontext add_declaration/concat_chunks): not modelled",
    "table walks not modelled, by name: scope.lua `pairs(possible_rettypes)` (add_return_type/resolve_rettypes), cbuiltins.lua `pairs(cdefs.builtins_headers)`, scope.lua `next,unresolved_symbols` (only through the abstract resolve model), analyzercontext, ltable.c/lstate.c themselves",
]
MANIFEST_ENTRY = {
    "text": "proof, partial - and the headline is differential: no clause of the statement is a theorem about the compiler; theorems cover five helpers in isolation (ospairs yields the sorted entries for every table order; memoize is order-free and evaluates once per class, premise discharged for the Lua value model; Symbol:is_used and the cached sequence DCE runs = reachability for every order, total; equal codenames -> equal type ids; an abstract resolve fixpoint is order-free if steps commute); 'same sources and options -> byte-identical C, names, command lines and diagnostics across processes, hash seeds, ASLR and cold/warm cache' is observed by differential compilations only",
    "note": "trusted: coqc, regex scrape of iterators.ospairs / memoize / Symbol:is_used / gencodename / Type:_init, interpreters rebuilt with -Dluai_makeseed, setarch -R, harness/C07 (ops.lua, genprog.py), gcc/ar; cold/warm binary staleness is C08's (fixed 8d3d23d)",
    "technique": "differential compilation under forced hash seeds / ASLR / cache states (the property, observed) + Coq models of five table-walking helpers corresponded against the Lua functions",
}
ASSUMPTIONS = [
    "Lua table iteration order = an arbitrary permutation of the entries (nothing else about next() is used)",
    "string comparison is byte order (C locale; the interpreter never calls setlocale)",
    "memoize's argument match (== or shallow_compare_nomt) is an equivalence on the arguments actually passed (hypothesis of C07_memoize_order_free; fails for NaN and for objects with a non-transitive __eq)",
    "UNDISCHARGED in general: resolve_steps_commute - single steps of Symbol:resolve_type / forced resolution commute (hypothesis of C07_resolve_symbols_order_free_conditional); discharged for the dependency-driven class (C07_resolve_symbols_order_free_dependency_driven_abstract), whose link to the real resolve_type is by reading, not by a checked tie; otherwise the differential compilations are the only evidence",
    "the differential runs sample seeds and layouts; they are tests, not a proof that the whole compiler is order-free",
    "cold vs warm cache directory is compared on the generated C file (nelua --code); the reuse of a cached BINARY within the same second used to serve a stale artefact (two sources with one basename compiled into one --cache-dir within a second ran the first binary twice): fixed in /repo by 8d3d23d, replayed in real time on every run under C08 (known_findings/C08.json 'fixed', history R:0:-:0:0:0:0:0:0 R:0:-:1:0:0:0:0:0)",
]

SEEDS = [1, 2654435769]


def _load(name):
    p = os.path.join(vlib.VERIF, "harness", ID, name + ".py")
    spec = importlib.util.spec_from_file_location("c07_" + name, p)
    m = importlib.util.module_from_spec(spec)
    spec.loader.exec_module(m)
    return m


# --------------------------------------------------------------------------- (T)

def gen(ctx):
    """Scrape; Gen.v is written with what was found even when a structural check fails (a stale Gen.v
    from an earlier run must never be used); the failures are then raised together."""
    problems = []
    try:
        res = _gen(ctx, problems)
    except Exception as ex:      # a scrape that cannot even locate the function
        raise RuntimeError("; ".join(problems + [str(ex)]))
    if problems:
        raise RuntimeError("; ".join(problems))
    return res


def _gen(ctx, problems):
    it = vlib.repo_read("lualib/nelua/utils/iterators.lua")
    m = re.search(r"function iterators\.ospairs\(t\)(.*?)\nend", it, re.S)
    if not m:
        problems.append("cannot find iterators.ospairs")
    body = m.group(1)
    if not re.search(r"for k,_ in next,t do\s*if type\(k\) == 'string' then\s*okeys\[#okeys \+ 1\] = k", body):
        problems.append("ospairs: key collection loop is not the one the model mirrors")
    sorts = bool(re.search(r"^\s*table\.sort\(okeys\)\s*$", body, re.M))
    memo = vlib.repo_read("lualib/nelua/utils/memoize.lua")
    if not re.search(r"for params,res in pairs\(cache\) do", memo):
        problems.append("memoize: cache walk is not the one the model mirrors")
    memo_match = bool(re.search(r"if pv ~= av and not shallow_compare_nomt\(pv, av\) then", memo))
    if not memo_match:
        problems.append("memoize: argument match is not `pv == av or shallow_compare_nomt(pv, av)`")
    sym = vlib.repo_read("lualib/nelua/symbol.lua")
    m2 = re.search(r"function Symbol:is_used\(cache, checkedsyms\)(.*?)\nend", sym, re.S)
    if not m2:
        problems.append("cannot find Symbol:is_used")
    guard = bool(re.search(r"checkedsyms\[self\] = true", m2.group(1)) and re.search(r"if not checkedsyms\[funcsym\] then", m2.group(1)))
    if not guard:
        problems.append("Symbol:is_used: cycle guard not found; the model's dfs does not apply")
    ty = vlib.repo_read("lualib/nelua/types.lua")
    if not re.search(r"local key = string\.format\('%s%s%d', name, srcname, uid\)", ty):
        problems.append("types.gencodename: key is no longer (name, srcname, uid)")
    if not re.search(r"id = typeid_counter\s*typeid_counter = typeid_counter \+ 1\s*typeid_by_codename\[self\.codename\] = id", ty):
        problems.append("Type:_init: type id assignment is not the one the model mirrors")
    # where does emitting code walk tables?  (recorded, not judged)
    uses = {}
    for f in ("ccompiler.lua", "cgenerator.lua", "ccontext.lua", "cemitter.lua", "cbuiltins.lua", "aster.lua", "analyzer.lua", "scope.lua"):
        t = vlib.repo_read("lualib/nelua/" + f)
        uses[f] = {"ospairs": len(re.findall(r"\bospairs\(", t)), "pairs": len(re.findall(r"[^o\w]pairs\(", t)),
                   "next": len(re.findall(r"in next,", t))}
    # (the memoize match and the is_used cycle guard are structural requirements of the models: their
    #  absence is a translator failure above, not a parameter)
    txt = ("(* GENERATED by checks/C07.py from /repo - do not edit *)\n"
           "Definition OSPAIRS_SORTS : bool := %s.\n" % ("true" if sorts else "false"))
    vlib.write_if_changed(os.path.join(vlib.coq_dir(ID), "Gen.v"), txt)
    return {"ospairs_sorts": sorts, "memoize_match_eq_or_shallow": memo_match, "is_used_cycle_guard": guard, "table_walks": uses}


# --------------------------------------------------------------------------- (C)(a) op cases

def hexs(b):
    return "".join("%02x" % x for x in b)


def rand_key(rng):
    pool = [b"a", b"ab", b"abc", b"b", b"B", b"", b"_x", b"z", b"a\xff", b"a\x00", b"\x80", b"cflags", b"cc", b"gcc", b"clang", b"9", b"10"]
    if rng.random() < .6:
        return rng.choice(pool)
    return bytes(rng.choice(b"abAB_09\x7f\x80\xff") for _ in range(rng.randint(0, 5)))


def gen_ops(ctx):
    rng = ctx.rng
    cases = []
    n = ctx.scale(300, 6000)
    for _ in range(n):
        k = rng.random()
        if k < .35:
            keys = list({rand_key(rng) for _ in range(rng.randint(0, 9))})
            ent = ["s:%s=%d" % (hexs(x), rng.randrange(100)) for x in keys] + \
                  ["o:%d=%d" % (x, rng.randrange(100)) for x in rng.sample(range(1, 20), rng.randint(0, 3))]
            for _ in range(2):           # the same table under two insertion orders
                rng.shuffle(ent)
                cases.append(("ospairs", "ospairs " + " ".join(ent)))
        elif k < .6:
            calls = []
            # tables with array-part and hash-part keys; some are strict sub-tables of others (same values)
            tabs = {}
            for i in range(6):
                if i and rng.random() < .5:
                    base = tabs[rng.randrange(i)]
                    items = [x for x in base.split(",") if x and rng.random() < .6]
                    tabs[i] = ",".join(items)
                else:
                    tabs[i] = ",".join("%d=%d" % (kk, rng.randrange(3)) for kk in rng.sample([1, 2, 3, 4, 101, 102, 103], rng.randint(0, 4)))
            for _ in range(rng.randint(1, 10)):
                args = []
                for _ in range(rng.randint(0, 3)):
                    c = rng.random()
                    if c < .1:
                        args.append("z")
                    elif c < .4:
                        args.append("n%d" % rng.randrange(4))
                    elif c < .6:
                        args.append("s" + hexs(rng.choice([b"a", b"b", b"ab", b""])))
                    else:
                        i = rng.randrange(6)
                        args.append("t%d:%s" % (i, tabs[i]))
                calls.append(";".join(args) or "-")
            cases.append(("memo", "memo " + "|".join(calls)))
        elif k < .9:
            nn = rng.randint(1, 9)
            edges = sorted({(rng.randint(1, nn), rng.randint(1, nn)) for _ in range(rng.randint(0, 2 * nn))})
            roots = rng.sample(range(1, nn + 1), rng.randint(0, min(2, nn)))
            qs = list(range(1, nn + 1))
            for _ in range(2):           # the same graph, edges inserted and queried in two orders
                rng.shuffle(edges)
                rng.shuffle(qs)
                cases.append(("used", "used %s %s %s" % (",".join("%d>%d" % e for e in edges) or "-",
                                                          ",".join(map(str, roots)) or "-", ",".join(map(str, qs)))))
        else:
            names = [hexs(rng.choice([b"aa", b"bb", b"cc", b"dd", b"ee"])) for _ in range(rng.randint(1, 8))]
            cases.append(("ids", "ids " + " ".join(names)))
    return cases


def oracle(line):
    """Right-hand sides of the theorems, evaluated in Python."""
    w = line.split()
    if w[0] == "ospairs":
        ent = {}
        for e in w[1:]:
            k, v = e.rsplit("=", 1)
            if k.startswith("s:"):
                ent[bytes.fromhex(k[2:])] = v
        return ",".join("%s=%s" % (hexs(k), ent[k]) for k in sorted(ent))
    if w[0] == "memo":
        calls = line[5:].split("|")
        reps, out = [], []

        def parse(c):
            r = []
            for a in ([] if c in ("", "-") else c.split(";")):
                if a == "z":
                    r.append(("z", ""))
                elif a[0] == "t":
                    i, _, cont = a[1:].partition(":")
                    r.append(("t", i, frozenset(cont.split(",")) if cont else frozenset()))
                else:
                    r.append((a[0], a[1:]))
            return r

        def veq(x, y):
            if x[0] != y[0]:
                return False
            if x[0] == "t":
                return x[1] == y[1] or x[2] == y[2]
            return x[1] == y[1]
        for c in calls:
            a = parse(c)
            for i, r in enumerate(reps):
                if len(r) == len(a) and all(veq(x, y) for x, y in zip(r, a)):
                    out.append(i)
                    break
            else:
                reps.append(a)
                out.append(len(reps) - 1)
        return " ".join(map(str, out)) + " #%d" % len(reps)
    if w[0] == "used":
        edges = [tuple(e.split(">")) for e in ([] if w[1] == "-" else w[1].split(","))]
        roots = set([] if w[2] == "-" else w[2].split(","))
        res = []
        for q in w[3].split(","):
            seen, todo, ok = {q}, [q], False
            while todo:
                x = todo.pop()
                if x in roots:
                    ok = True
                    break
                for a, b in edges:
                    if a == x and b not in seen:
                        seen.add(b)
                        todo.append(b)
            res.append("1" if ok else "0")
        return ",".join(res)
    if w[0] == "ids":
        first = {}
        return ",".join(str(first.setdefault(c, len(first))) for c in w[1:])
    raise KeyError(w[0])


# --------------------------------------------------------------------------- (C)(b) differential

TMP_RE = re.compile(r"/tmp/lua_[A-Za-z0-9]{6}")


def compile_once(interp, prog, workdir, aslr, cwd):
    """nelua --code: writes <workdir>/cache/<basename>.c (heading with compile command and hash + code).
    All variants of one program use the same cache directory path (the path is part of the command
    and hence of the hash); a cold variant starts from an empty directory, a warm one from the
    directory left by the previous variant."""
    os.makedirs(workdir, exist_ok=True)
    out_c = os.path.join(workdir, "cache", os.path.basename(prog)[:-len(".nelua")] + ".c")
    cmd = [interp, "-lnelua", os.path.join(vlib.REPO, "nelua.lua"), "--cache-dir", os.path.join(workdir, "cache"),
           "--code", prog]
    if not aslr:
        cmd = ["setarch", os.uname().machine, "-R"] + cmd
    env = dict(os.environ)
    env.update(vlib.lua_env())
    p = subprocess.run(cmd, cwd=cwd, env=env, stdout=subprocess.PIPE, stderr=subprocess.PIPE, timeout=600)
    try:
        with open(out_c, "rb") as f:
            code = f.read()
    except OSError:
        code = b""
    code = code.replace(workdir.encode(), b"<W>")
    err_raw = p.stderr.replace(workdir.encode(), b"<W>")
    err = TMP_RE.sub("/tmp/lua_XXXXXX", err_raw.decode("utf8", "replace")).encode()
    return {"code": hashlib.sha256(code).hexdigest(), "code_len": len(code),
            "stderr": hashlib.sha256(err).hexdigest(), "stderr_raw": hashlib.sha256(err_raw).hexdigest(),
            "rc": p.returncode, "stderr_text": err.decode("utf8", "replace")[-1500:], "stdout_len": len(p.stdout)}


def correspond(ctx):
    driver = vlib.ocaml_build(ID)
    genprog = _load("genprog")
    base = vlib.ensure_interp()
    with concurrent.futures.ThreadPoolExecutor(max_workers=2) as ex:
        seeded = list(ex.map(lambda k: vlib.ensure_interp(extra_defs=["-Dluai_makeseed(L)=%du" % k], tag="seed%d" % k), SEEDS))
    interps = [("random-seed", base)] + [("seed%d" % k, i) for k, i in zip(SEEDS, seeded)]

    # ---- (a) model vs Lua functions vs oracle
    cases = []
    cp = os.path.join(vlib.VERIF, "corpus", ID, "cases.txt")
    if os.path.exists(cp):
        for line in vlib.read(cp).split("\n"):
            line = line.split("#")[0].strip()
            if line:
                cases.append((line.split()[0], line))
    cases += gen_ops(ctx)
    text = "\n".join(c[1] for c in cases) + "\n"
    rc, mout, merr = vlib.sh([driver], input=text, timeout=900)
    ml = mout.split("\n")
    if rc != 0 or len(ml) < len(cases):
        ctx.violation("harness-run", "harness", "model driver rc=%s: %s" % (rc, merr[-300:]), failing_input=False)
        return {"evaluations": 0}
    script = os.path.join(vlib.VERIF, "harness", ID, "ops.lua")
    impl = {}
    for name, ip in interps:
        for aslr in (True, False):
            cmd = [ip, script] if aslr else ["setarch", os.uname().machine, "-R", ip, script]
            rc2, iout, ierr = vlib.sh(cmd, input=text, env=vlib.lua_env(), timeout=900)
            il = iout.split("\n")
            if rc2 != 0 or len(il) < len(cases):
                ctx.violation("harness-run", "harness", "lua harness (%s) rc=%s: %s" % (name, rc2, ierr[-300:]), failing_input=False)
                return {"evaluations": 0}
            impl[(name, aslr)] = il
    per_op, nontrivial = {}, set()
    n_oracle = n_mismatch = 0
    for i, (op, line) in enumerate(cases):
        per_op[op] = per_op.get(op, 0) + 1
        exp = oracle(line)
        if len(line.split()) > 3:
            nontrivial.add(line)
        outs = {k: v[i] for k, v in impl.items()}
        bad = [(k, o) for k, o in outs.items() if o != exp]
        if bad:
            n_oracle += 1
            if n_oracle <= 4:
                ctx.violation("%s-case: %s" % (op, line), "oracle",
                              "%s: the Lua function returns %s under %s, the specification (sorted/complete, once per class, reachability, first-occurrence rank) gives %s; outputs across variants: %s" %
                              (op, bad[0][1], bad[0][0], exp, sorted(set(outs.values()))),
                              detail={"case": line, "oracle": exp, "model": ml[i], "implementation": {str(k): v for k, v in outs.items()},
                                      "replay": "echo '%s' | LUA_PATH='%s/lualib/?.lua;;' <nelua-lua> /verif/harness/C07/ops.lua" % (line, vlib.REPO)})
        elif ml[i] != exp:
            n_mismatch += 1
            if n_mismatch <= 3:
                ctx.violation("model-mismatch:%s" % op, "correspondence",
                              "model of %s no longer corresponds to the code on %s: model %s, implementation %s" % (op, line, ml[i], exp),
                              detail={"case": line, "no_longer_checks": "correspondence stream C07/%s" % op}, failing_input=False)

    # ---- (b) differential compilations
    work = os.path.join(ctx.work, "diff-%d" % os.getpid())
    shutil.rmtree(work, ignore_errors=True)
    os.makedirs(work)
    progs = []
    for d in ("tests", "examples"):
        for f in sorted(os.listdir(os.path.join(vlib.REPO, d))):
            if f.endswith(".nelua"):
                progs.append(("repo", os.path.join(d, f), os.path.join(vlib.REPO, d, f), None))
    if not ctx.thorough:
        keep = ctx.rng.sample(range(len(progs)), 22)
        progs = [p for i, p in enumerate(progs) if i in keep or p[1] in ("tests/all_test.nelua", "examples/snakesdl_nldecl.nelua")]
    cdir = os.path.join(vlib.VERIF, "corpus", ID, "progs")
    for f in sorted(os.listdir(cdir)) if os.path.isdir(cdir) else []:
        if f.endswith(".nelua"):
            progs.insert(0, ("corpus", "corpus/" + f, os.path.join(cdir, f), vlib.read(os.path.join(cdir, f))))
    gdir = os.path.join(work, "gen")
    os.makedirs(gdir)
    for i in range(ctx.scale(24, 500)):
        erroneous = i % 3 == 2
        src = genprog.gen_program(ctx.rng, erroneous)
        path = os.path.join(gdir, "g%d.nelua" % i)
        with open(path, "w") as f:
            f.write(src)
        progs.append(("gen-error" if erroneous else "gen", "g%d.nelua" % i, path, src))
    # variants: (interpreter, aslr, warm)
    variants = [(0, True, False), (1, False, False), (2, True, False), (1, True, True)]
    if ctx.thorough:
        variants += [(0, False, False), (2, False, True), (1, True, False), (0, True, True)]

    def job(pi):
        stream, rel, path, src = progs[pi]
        wd = os.path.join(work, "p%d" % pi)
        cwd = vlib.REPO if stream == "repo" else (cdir if stream == "corpus" else gdir)
        out = []
        for vi, (ii, aslr, warm) in enumerate(variants):
            if not warm:
                shutil.rmtree(os.path.join(wd, "cache"), ignore_errors=True)
            out.append((pi, vi, compile_once(interps[ii][1], path, wd, aslr, cwd)))
        return out

    jobs = [(pi, vi) for pi in range(len(progs)) for vi in range(len(variants))]
    res = {}
    with concurrent.futures.ThreadPoolExecutor(max_workers=ctx.scale(8, 14)) as ex:
        for lst in ex.map(job, range(len(progs))):
            for pi, vi, r in lst:
                res[(pi, vi)] = r
    n_nondet = 0
    dist = {"repo": 0, "gen": 0, "gen-error": 0, "corpus": 0}
    rc_hist = {}
    samples = []
    for pi, (stream, rel, path, src) in enumerate(progs):
        dist[stream] += 1
        rs = [res[(pi, vi)] for vi in range(len(variants))]
        rc_hist[str(rs[0]["rc"])] = rc_hist.get(str(rs[0]["rc"]), 0) + 1
        if len(samples) < 3 or (stream != "repo" and len(samples) < 6):
            samples.append({"program": rel, "stream": stream, "code_sha256": rs[0]["code"][:16], "code_bytes": rs[0]["code_len"], "rc": rs[0]["rc"]})
        for obs in ("code", "stderr", "rc"):
            vals = {str(r[obs]) for r in rs}
            if len(vals) > 1:
                n_nondet += 1
                ctx.violation("nondeterministic %s: %s" % (obs, rel if stream in ("repo", "corpus") else "generated program sha256=%s" % hashlib.sha256(src.encode()).hexdigest()[:16]),
                              "oracle", "%s of %s differs between interpreter variants (seed/ASLR/warm cache): %s" %
                              (obs, rel, [(interps[v[0]][0], "aslr" if v[1] else "no-aslr", "warm" if v[2] else "cold", str(r[obs])[:12]) for v, r in zip(variants, rs)]),
                              detail={"program": rel, "source": src, "stderr_samples": sorted({r["stderr_text"] for r in rs})[:3],
                                      "replay": "compile %s with interpreters built with -Dluai_makeseed(L)=<k>u for k in %s and with/without `setarch -R`: nelua --code -o out.c <program>; compare out.c/stderr" % (rel, SEEDS)})
                break
        else:
            if len({r["stderr_raw"] for r in rs}) > 1:
                ctx.violation("diag-tmpname: %s" % rel, "oracle",
                              "diagnostic of %s differs between runs only in an os.tmpname() file name quoted from the C compiler's error" % rel,
                              detail={"program": rel, "stderr": rs[0]["stderr_text"][:600]})
    # ---- (b') the flag set chosen for a --cc value that contains several known compiler names
    # (ccompiler.lua get_compiler_flags walks cdefs.compilers_flags: the choice must not depend on the walk order)
    ccdir = os.path.join(work, "ccnames")
    cc_runs = 0
    cc_names = []
    for rel, target in (("gcc-12/bin/g++", "g++"), ("opt/tcc-gcc", "gcc"), ("opt/gcc-tcc", "gcc"), ("c2m/bin/gcc", "gcc")):
        real = shutil.which(target)
        if not real:
            continue
        pth = os.path.join(ccdir, rel)
        os.makedirs(os.path.dirname(pth), exist_ok=True)
        os.symlink(real, pth)
        cc_names.append((rel, pth))
    hello = os.path.join(ccdir, "hello.nelua")
    if cc_names:
        with open(hello, "w") as f:
            f.write('print("hello")\n')
    env = dict(os.environ)
    env.update(vlib.lua_env())

    def cc_job(a):
        rel, pth, ii, rep = a
        wd = os.path.join(ccdir, "w-%s-%d-%d" % (rel.replace("/", "_"), ii, rep))
        os.makedirs(wd, exist_ok=True)
        out_c = os.path.join(ccdir, "out-%s-%d-%d.c" % (rel.replace("/", "_"), ii, rep))
        p = subprocess.run([interps[ii][1], "-lnelua", os.path.join(vlib.REPO, "nelua.lua"), "--cache-dir", wd, "--cc", pth,
                            "--code", "-o", out_c, hello], cwd=ccdir, env=env, stdout=subprocess.PIPE, stderr=subprocess.PIPE, timeout=300)
        cmdline = ""
        try:
            for line in open(out_c, errors="replace"):
                if "Compile command" in line:
                    cmdline = line.strip().replace(out_c, "<OUT>").replace(out_c[:-2], "<OUT>")
                    break
        except OSError:
            pass
        return rel, (p.returncode, cmdline, TMP_RE.sub("/tmp/lua_XXXXXX", p.stderr.decode("utf8", "replace"))[-300:])

    cc_jobs = [(rel, pth, ii, rep) for rel, pth in cc_names for ii in range(len(interps)) for rep in range(6 if ii == 0 else 1)]
    cc_seen = {}
    with concurrent.futures.ThreadPoolExecutor(max_workers=8) as ex:
        for rel, r in ex.map(cc_job, cc_jobs):
            cc_runs += 1
            cc_seen.setdefault(rel, set()).add(r)
    for rel, vals in cc_seen.items():
        if len(vals) > 1:
            n_nondet += 1
            ctx.violation("nondeterministic compile command: --cc <dir>/%s" % rel, "oracle",
                          "the C compiler command recorded for --cc <dir>/%s differs between compiler processes (hash seeds): %s" % (rel, sorted(v[1] for v in vals)),
                          detail={"cc": rel, "observed": sorted(map(list, vals)),
                                  "replay": "ln -s $(command -v g++) <dir>/%s; nelua --cc <dir>/%s --code -o out.c hello.nelua (several processes / seeds); compare the 'Compile command' heading" % (rel, rel)})
    # ---- (b2) every build mode, and sequences of modes sharing one cache directory
    # Per step: the commands nelua reports with --verbose (C compiler, ar, strip), its cache decisions,
    # stderr, exit status and a digest of the artefact (archives: member names + member contents) must
    # coincide between compiler processes (seeds / ASLR); the artefact and the commands of the last step
    # must also coincide with the same mode run alone in a cold directory (warm caches made by OTHER modes).
    mdir = os.path.join(work, "modes")
    os.makedirs(mdir)
    LIBSRC = "local function c07_add(a: integer, b: integer): integer <cexport>\n  return a + b\nend\nprint(c07_add(1, 2))\n"
    with open(os.path.join(mdir, "lib.nelua"), "w") as f:
        f.write(LIBSRC)
    MODES = {"object": ("--object", ".o"), "static": ("--static-lib", ".a"), "shared": ("--shared-lib", ".so"),
             "assembly": ("--assembly", ".s"), "code": ("--code", ".c"), "binary": ("--binary", "")}
    seqs = [[m] for m in MODES] + [["object", "static"], ["static", "object"], ["object", "shared", "static"],
                                   ["code", "binary", "object"], ["assembly", "static", "static"],
                                   ["binary", "object", "static", "shared"], ["shared", "object", "assembly", "static"]]
    for _ in range(ctx.scale(3, 60)):
        seqs.append([ctx.rng.choice(list(MODES)) for _ in range(ctx.rng.randint(2, 5))])
    mvariants = [(0, True), (0, True), (1, False), (2, True)]      # two processes of the time/address-seeded interpreter, two forced seeds
    FIELDS = ["exit status", "cache decisions", "command lines", "stderr", "artefact"]

    def digest(path, ext):
        if not os.path.exists(path):
            return "missing"
        if ext == ".a":
            names = subprocess.run(["ar", "t", path], stdout=subprocess.PIPE, stderr=subprocess.PIPE, text=True).stdout.split()
            body = subprocess.run(["ar", "p", path], stdout=subprocess.PIPE, stderr=subprocess.PIPE).stdout
            return "members=%s sha=%s" % (",".join(names), hashlib.sha256(body).hexdigest()[:16])
        with open(path, "rb") as fh:
            return "sha=" + hashlib.sha256(fh.read()).hexdigest()[:16]

    def mode_run(si, vi, only_last=False):
        ii, aslr = mvariants[vi]
        cache = os.path.join(mdir, "s%d" % si, "cache")      # the same path for every variant (they run one after the other)
        shutil.rmtree(cache, ignore_errors=True)
        steps = []
        for m in (seqs[si][-1:] if only_last else seqs[si]):
            flag, ext = MODES[m]
            cmd = [interps[ii][1], "-lnelua", os.path.join(vlib.REPO, "nelua.lua"), "--verbose", "--cache-dir", cache, flag, "lib.nelua"]
            if not aslr:
                cmd = ["setarch", os.uname().machine, "-R"] + cmd
            p = subprocess.run(cmd, cwd=mdir, env=env, stdout=subprocess.PIPE, stderr=subprocess.PIPE, timeout=300, text=True, errors="replace")
            lines = p.stdout.splitlines()
            decisions = tuple(l for l in lines if l.startswith(("generated ", "using cached ")))
            commands = tuple(l for l in lines if not l.startswith(("generated ", "using cached ")))
            steps.append((p.returncode, decisions, commands, p.stderr[-600:], digest(os.path.join(cache, "lib" + ext), ext)))
        return steps

    mode_res, cold_res = {}, {}

    def seq_job(si):      # the variants of one sequence in turn, then its last mode alone in the (emptied) same directory
        return [mode_run(si, vi) for vi in range(len(mvariants))], (mode_run(si, 0, only_last=True)[0] if len(seqs[si]) > 1 else None)
    with concurrent.futures.ThreadPoolExecutor(max_workers=8) as ex:      # parallel over sequences
        for si, (lst, cold1) in enumerate(ex.map(seq_job, range(len(seqs)))):
            for vi, steps in enumerate(lst):
                mode_res[(si, vi)] = steps
            cold_res[si] = cold1
    mode_runs = sum(len(v) for v in mode_res.values()) + sum(1 for v in cold_res.values() if v)
    tmp_hits = []
    for si, seq in enumerate(seqs):
        runs = [mode_res[(si, vi)] for vi in range(len(mvariants))]
        flags = [MODES[x][0] for x in seq]
        for k, m in enumerate(seq):
            obs = [r[k] for r in runs]
            for o in obs:
                for text in o[2] + (o[3],):
                    if TMP_RE.search(text):
                        tmp_hits.append((flags[:k + 1], text[:300]))
            # whether a cached binary is reused depends on wall-clock seconds (strictly newer mtime), not on
            # the process: cache decisions are not compared, and a step that reused its artefact (no command
            # printed) is compared on the artefact, stderr and exit status only
            ran = {o[2] for o in obs if o[2]}
            cmp_obs = [(o[0], (), (next(iter(ran)) if len(ran) == 1 and not o[2] else o[2]), o[3], o[4]) for o in obs]
            if len(set(cmp_obs)) > 1:
                obs = cmp_obs
                n_nondet += 1
                what = [n for i, n in enumerate(FIELDS) if len({o[i] for o in obs}) > 1]
                first = FIELDS.index(what[0])
                ctx.violation("nondeterministic build: %s in one cache dir, step %d" % (" ".join(flags[:k + 1]), k + 1), "oracle",
                              "%s of `nelua %s lib.nelua` (after %s in the same --cache-dir) differ between compiler processes: %s" %
                              (", ".join(what), flags[k], flags[:k] or "nothing", sorted({str(o[first])[:260] for o in obs})),
                              detail={"program": LIBSRC, "sequence": flags[:k + 1], "observations": [list(map(str, o)) for o in obs],
                                      "replay": "in an empty --cache-dir run `nelua --verbose <mode> lib.nelua` for the modes %s one after the other, in two separate runs; compare the last step" % flags[:k + 1]})
                break
            if k == len(seq) - 1 and cold_res.get(si):
                c, w = cold_res[si], runs[0][k]
                diff = []
                if w[4] != c[4]:
                    diff.append("artefact %s vs cold %s" % (w[4], c[4]))
                if w[2] and c[2] and w[2] != c[2]:
                    diff.append("commands %s vs cold %s" % (list(w[2]), list(c[2])))
                if w[0] != c[0]:
                    diff.append("exit status %s vs cold %s" % (w[0], c[0]))
                if diff:
                    n_nondet += 1
                    ctx.violation("cold-vs-warm build: %s after %s in one cache dir" % (flags[k], " ".join(flags[:k])), "oracle",
                                  "`nelua %s lib.nelua` in a cache directory warmed by %s differs from the same build in an empty directory: %s" %
                                  (flags[k], flags[:k], "; ".join(diff)[:600]),
                                  detail={"program": LIBSRC, "sequence": flags, "warm": list(map(str, w)), "cold": list(map(str, c))})
    # ---- generic oracle: no command line or diagnostic carries an os.tmpname() path
    for rel, vals in cc_seen.items():
        for v in vals:
            if TMP_RE.search(v[1]):
                tmp_hits.append((["--cc " + rel], v[1][:300]))
    if tmp_hits:
        seqk, text = tmp_hits[0]
        ctx.violation("tmpname in command/diagnostic: %s" % " ".join(seqk), "oracle",
                      "a command line or diagnostic contains an os.tmpname() path, which is not a function of sources and options: %s" % text,
                      detail={"program": LIBSRC, "occurrences": [[" ".join(a), b] for a, b in tmp_hits[:6]]})

    # ---- (b3) the --print-* outputs are outputs too
    pdir = os.path.join(work, "prints")
    os.makedirs(pdir)
    PSRC = "require 'string'\nlocal function f(x: integer) return x + 1 end\nprint(f(1), 'a' .. 'b')\n"
    with open(os.path.join(pdir, "p.nelua"), "w") as f:
        f.write(PSRC)
    ADDR_RE = re.compile(r'\w+ = "(?:table|function|userdata|thread): 0x[0-9a-f]+"')

    def print_job(a):
        flag, vi = a
        ii, aslr = mvariants[vi]
        cmd = [interps[ii][1], "-lnelua", os.path.join(vlib.REPO, "nelua.lua"), flag, "p.nelua"]
        if not aslr:
            cmd = ["setarch", os.uname().machine, "-R"] + cmd
        p = subprocess.run(cmd, cwd=pdir, env=env, stdout=subprocess.PIPE, stderr=subprocess.PIPE, timeout=300, text=True, errors="replace")
        return flag, (p.returncode, hashlib.sha256(p.stdout.encode()).hexdigest()[:16], p.stderr[-300:]), ADDR_RE.findall(p.stdout)[:3]
    print_seen, print_addr = {}, {}
    print_flags = ["--print-ast", "--print-analyzed-ast", "--print-ppcode", "--print-code"]
    with concurrent.futures.ThreadPoolExecutor(max_workers=8) as ex:
        for flag, r, addrs in ex.map(print_job, [(fl, vi) for fl in print_flags for vi in range(len(mvariants))]):
            print_seen.setdefault(flag, set()).add(r)
            if addrs:
                print_addr[flag] = addrs
    for flag in print_flags:
        if len(print_seen[flag]) > 1:
            n_nondet += 1
            ctx.violation("nondeterministic output: %s" % flag, "oracle",
                          "the output of `nelua %s p.nelua` differs between compiler processes%s" %
                          (flag, (": it prints object addresses, e.g. %s" % print_addr[flag]) if flag in print_addr else ""),
                          detail={"program": PSRC, "observations": sorted(map(str, print_seen[flag]))[:4],
                                  "replay": "nelua %s p.nelua | sha256sum   (twice)" % flag})
    shutil.rmtree(work, ignore_errors=True)
    return {
        "build_mode_sequences": len(seqs), "build_mode_runs": mode_runs, "print_mode_runs": len(print_flags) * len(mvariants),
        "cc_name_runs": cc_runs, "cc_names": [c[0] for c in cc_names],
        "evaluations": len(cases) * len(impl) + len(jobs) + cc_runs + mode_runs + len(print_flags) * len(mvariants),
        "distinct_nontrivial": len(nontrivial) + len(progs),
        "rule": "(a) op cases = corpus + generated (ospairs tables under two insertion orders, memoize call sequences with numbers/strings/tables, "
                "usedby graphs with cycles under two insertion/query orders, Type:_init codename sequences), each run under %d interpreter/ASLR variants; "
                "non-trivial = distinct case with more than two operands; (b) programs = repository tests/examples + generated valid/erroneous programs, "
                "each compiled under %d variants (forced seeds %s + time/address seed, ASLR on/off, cold/warm cache dir)" % (len(impl), len(variants), SEEDS),
        "samples": [c[1] for c in cases[:2]] + [c[1] for c in cases[-2:]] + samples,
        "distribution": {"ops": per_op, "programs": dist, "exit_status_of_programs": rc_hist,
                         "variants": [(interps[v[0]][0], "aslr" if v[1] else "no-aslr", "warm" if v[2] else "cold") for v in variants]},
        "op_cases": len(cases), "oracle_failures": n_oracle, "model_mismatches": n_mismatch,
        "programs": len(progs), "compilations": len(jobs), "nondeterministic_programs": n_nondet,
        "traces_validated_against_impl": len(cases),
        "unproved": UNPROVED,
    }
