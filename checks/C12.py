"""C12 - standard containers behave as their abstract models under any operation sequence.

(T) MAX_LOAD_FACTOR / GROW_RATE / INIT_CAPACITY of hashmap.nelua, the initial capacities and growth
    multipliers of vector/sequence/stringbuilder and the hash seed are scraped into coq/C12/Gen.v;
    the proofs use facts about them.
(C) one stdin-driven Nelua driver (harness/C12/driver.nelua) instantiating every container for the
    element/key types integer, string, record{integer,number}, number is fed operation histories;
    after every step it dumps return value, length, capacity and the full contents through the
    public observers.  The same histories run through the extracted Coq model (coq/C12/driver.ml,
    concrete model and abstract specification side by side).  The property oracle is an independent
    Python implementation of the mathematical list / map / byte string.
"""
import os
import re
import struct
import vlib

ID = "C12"
ALLOWED_AXIOMS = []
TRUSTED_BASE = [
    "coqc 8.16.1 kernel (vm_compute used for facts about scraped constants and refutation witnesses; no native_compute)",
    "no axioms: every theorem of coq/C12/Properties.v is 'Closed under the global context'",
    "translator checks/C12.py:gen (regex scrape of MAX_LOAD_FACTOR, GROW_RATE, INIT_CAPACITY in hashmap.nelua; initial capacity and growth multiplier in vector.nelua/sequence.nelua/stringbuilder.nelua; hash seed in hash.nelua; step, stop comparison, one-indexing offsets and initial controls of impl_ipairs_next/impl_mipairs_next/ipairs/mipairs in iterators.nelua)",
    "extraction: Require Extraction + ExtrOcamlBasic only; no Extract Constant of our own; Z/nat stay Coq inductives",
    "ocaml/zutil.ml + coq/C12/driver.ml (text <-> extracted values, op decoding), harness/C12/driver.nelua (op decoding, token<->value maps, dumps through the public observers), OCaml 4.13.1, gcc, the Nelua compiler itself (compiles the driver)",
    "modelled rather than verified: lib/*.nelua are mirrored by hand in coq/C12/Model.v, one Gallina function per source function (loops as structural recursion or fuel proved sufficient, including the in-place compaction of hashmap:rehash and memmove element by element, both proved equal to their block specification); memory.zero/set and spancopy are block operations; list nodes live in an arena indexed by allocation order instead of addresses; the tie is the step-by-step correspondence run on every check",
]
ASSUMPTIONS = [
    "sizes are exact naturals in the model: a container whose element count, capacity or size*100 would wrap a 64-bit usize cannot be allocated (hashmap roundpow2 is modelled mod 2^64 and rehash returns a distinguished Overflow outcome if it wrapped)",
    "allocation never fails (xspanrealloc raises an error otherwise); freshly (re)allocated cells hold unspecified values that the containers never expose",
    "element equality == and hash of the element type are the functions teqb/khash of the model: the hashmap theorems need == symmetric and transitive (reflexivity is not assumed: NaN keys are covered) and a hash that respects it (proved for the derived hashes of hash.nelua: integers, booleans, floats incl. +-0, record{integer,number}); the extracted model hashes value tokens where the implementation hashes the values: by C12_hashmap_hash_independent_exact nothing observable depends on which coherent hash is used",
    "negative float -> usize conversion in hash.hash wraps like x86-64 gcc (C leaves it undefined); compared with the implementation on every run",
    "correspondence is differential testing of the model against the compiled library, not a proof that model = code; every valid history is additionally replayed on a build with -fsanitize=address,undefined and the GC disabled (-P nogc: the conservative collector cannot run under ASan's fake stacks) (a test, not an obligation)",
]

MANIFEST_ENTRY = {
    "text": "proof, partial: THEOREMS (Coq 8.16.1, all closed under the global context) about an executable Gallina model of "
            "lib/{vector,sequence,list,hashmap,span,stringbuilder,hash}.nelua - every operation of vector, sequence and list (doubly "
            "linked) refines the mathematical list, for any history, with the documented check firing exactly when the list "
            "operation's precondition fails and never a memory error; the hashmap refines the association-list map for any == "
            "that is symmetric and transitive (NaN keys included) and any hash respecting it, iteration visits each binding "
            "once, removal while iterating is safe, rehash keeps the bindings in order, and - stronger - the hashmap IS a "
            "hash-free flat map: results, iteration order, capacity and bucket count are the same for every hash function "
            "respecting ==; the only other outcome (usize wrap of the bucket count) is excluded below 2^50 bindings; the derived "
            "hashes of integers, booleans, floats (+-0, NaN), record{integer,number}, arrays, spans, pointers and unions respect "
            "==, and the byte loop is total; the stringbuilder refines the byte string incl. NUL slot, commit/rollback guards "
            "(after repair 8abaeda) and refused allocations; a refused allocation in vector/sequence/hashmap/list aborts "
            "before any change; destroy resets to the fresh container; a span (fat pointer) answers as the list of its window "
            "and sub-spans stay inside it.  BY CORRESPONDENCE/TESTING ONLY: that the hand-written model is the Nelua code "
            "(scraped tuning constants + step-by-step differential runs of one compiled driver for element types integer, "
            "string, record{integer,number}, number against the extracted model and an independent Python oracle, "
            "precondition-violating and allocation-refusing streams, ASan/UBSan replay); iterators.nelua beyond the proved loops; writef/format; "
            "user-defined record keys",
    "note": "trusted: Coq 8.16.1 kernel; the hand-written model coq/C12/Model.v (tie = scraped MAX_LOAD_FACTOR/GROW_RATE/INIT_CAPACITY, "
            "initial capacities, growth multipliers, hash seed + correspondence, which is testing); extraction with ExtrOcamlBasic; "
            "OCaml/Nelua/Python glue (driver.ml, driver.nelua, checks/C12.py); sizes are exact naturals (no container near 2^50 "
            "elements); allocation either succeeds or panics; the Nelua compiler that compiles the driver; no cross-property file dependencies",
    "technique": "machine-checked proof in Coq over an executable model + regenerated parameters + extracted-model/implementation correspondence",
}
THEOREM_CLASSES = {
    # "main" only for statements of the property's own clauses (contents / length / lookup / return values / iteration
    # order and coverage equal the abstract model's, per operation from any well-formed state, precondition failures
    # stopped by the check; nothing lost by rehash or by removal during iteration; equal keys hash alike).  Histories
    # follow by induction; bounds, allocation failure, destroy and the NUL slot go beyond the clauses: "corollary".
    "C12_vector_step_refines_list": "main",
    "C12_vector_history_refines_list": "corollary",          # induction over the step theorem
    "C12_vector_observers": "corollary",
    "C12_sequence_step_refines_list": "main",
    "C12_sequence_history_refines_list": "corollary",
    "C12_sequence_observers": "corollary",
    "C12_sequence_remove_guard": "corollary",                # the check added by repair 3181cf6, instance of the step theorem
    "C12_hashmap_step_refines_map": "main",
    "C12_hashmap_history_refines_map": "corollary",
    "C12_hashmap_no_overflow_below_2p50": "corollary",       # supporting bound on the Overflow branch (uses facts about the scraped rates)
    "C12_hashmap_empty_related": "corollary",
    "C12_hashmap_iteration_each_binding_once": "main",
    "C12_hashmap_next_follows_iteration_order": "main",
    "C12_hashmap_erase_during_iteration": "main",
    "C12_hashmap_irreflexive_keys": "corollary",
    "C12_hashmap_rehash_preserves_bindings": "main",
    "C12_hashmap_is_flat_map": "main",                       # the iteration-ORDER clause: order, capacity, bucket count independent of the hash
    "C12_hashmap_next_is_flat_and_refines_map": "main",      # next(m) / next(m, k) on its own (outside the step relation)
    "C12_hashmap_hash_independent_exact": "corollary",       # of the flat-map theorem
    "C12_hashmap_histories_below_2p50": "corollary",         # the two above without the Overflow branch
    "C12_hashmap_hash_independent": "corollary",             # weaker (Permutation-level) form for association-list-related starts
    "C12_hashmap_overflow_only_beyond_2p62": "corollary",
    "C12_hash_coherent_float": "main",
    "C12_hash_coherent_record": "main",
    "C12_hash_coherent_aggregates": "main",
    "C12_hash_coherent_string_float32": "corollary",         # congruences: string == is equality of the bytes, float32 == differs from bit equality only at the two zeros
    "C12_iterators_visit_in_order": "main",                  # clause "iteration order or coverage" for the for-in iterators
    "C12_iterators_references_alias": "definitional",        # in the model a reference IS the index / node id; the guarantee about the code is the driver's `r == &v[k]` checks
    "C12_iterators_update_through_references": "corollary",  # whole update loops through mipairs/mpairs references
    "C12_select_returns_suffix": "definitional",             # the model of select is its specification (compile-time selection)
    "C12_hash_byte_loop_total": "corollary",                 # the model's fuel/default are dead code
    "C12_hash_coherent_integer_boolean": "corollary",        # == on integers/booleans is Leibniz equality
    "C12_stringbuilder_step_refines_bytes": "main",
    "C12_stringbuilder_history_refines_bytes": "corollary",
    "C12_stringbuilder_nul_slot": "corollary",
    "C12_stringbuilder_commit_guard": "corollary",           # instance of the step theorem (full strength since repair 8abaeda)
    "C12_stringbuilder_commit_exact": "corollary",
    "C12_stringbuilder_rollback_guard": "corollary",
    "C12_stringbuilder_allocation_failure": "corollary",     # beyond the clauses: refusing allocator
    "C12_stringbuilder_write_many_allocation_failure": "corollary",
    "C12_span_window_refines_list": "main",
    "C12_span_guards": "definitional",                       # unfolds span_at/span_sub, the right-hand side of the theorem above
    "C12_list_step_refines_list": "main",
    "C12_list_history_refines_list": "corollary",
    "C12_list_observers": "corollary",
    "C12_allocation_failure_aborts": "corollary",            # beyond the clauses: refusing allocator
    "C12_hashmap_rehash_request_sizes": "corollary",
    "C12_destroy_resets": "corollary",
}

NZ = 1 << 40
NAN = 1 << 41     # tokens >= NAN: float NaN / record with a NaN field: == to nothing, not even themselves
HM = 2147483647
KINDS = {1: "vector", 2: "sequence", 3: "list", 4: "hashmap", 5: "hashmap-weakhash", 6: "stringbuilder", 7: "span", 8: "hash",
         9: "stringbuilder-limited-allocator", 10: "vector-limited-allocator", 11: "sequence-limited-allocator",
         12: "hashmap-limited-allocator", 13: "list-limited-allocator"}
BASEKIND = {10: 1, 11: 2, 12: 4, 13: 3}
TYPES = {0: "integer", 1: "string", 2: "record", 3: "number"}
OPN = {
    1: {1: "push", 2: "pop", 3: "insert", 4: "remove", 5: "removevalue", 6: "removeif", 7: "resize", 8: "reserve", 9: "clear", 10: "copy", 11: "at", 12: "assign", 13: "destroy", 14: "convert", 15: "unpack", 16: "scoped-close", 17: "mnext-walk", 18: "ipairs-yields", 19: "mipairs-update"},
    3: {1: "pushfront", 2: "pushback", 3: "popfront", 4: "popback", 5: "insertbefore", 6: "erasevalue", 7: "find", 8: "clear", 9: "empty", 10: "erase(nilptr)", 11: "destroy", 12: "scoped-close", 13: "mnext-walk", 14: "pairs-yields", 15: "mpairs-update"},
    4: {1: "set", 2: "get", 3: "peek", 4: "has", 5: "has_and_get", 6: "remove", 7: "erase", 8: "clear", 9: "reserve", 10: "rehash", 11: "erase-while-iterating", 12: "next(k)", 13: "next()", 14: "probe", 15: "mpairs-update", 16: "next-traversal", 17: "destroy", 18: "mnext-walk", 19: "pairs-yields"},
    6: {1: "write", 2: "writebyte", 3: "prepare/commit", 4: "rollback", 5: "resize", 6: "clear", 7: "promote", 8: "commit-over", 9: "prepare", 10: "destroy", 11: "write(integer)", 12: "write(boolean)", 13: "write(integer,bytes,boolean)"},
    7: {1: "at", 2: "sub", 3: "sub-at", 4: "sub-sub", 5: "sub-ipairs"},
}
OPN[2] = OPN[1]
OPN[5] = OPN[4]
OPN[9] = OPN[6]
OPN[10] = OPN[1]
OPN[11] = OPN[2]
OPN[12] = OPN[4]
OPN[13] = OPN[3]
MSG = {
    "PopEmpty": "attempt to pop an empty", "Pos": "position out of bounds", "Index": "index out of range",
    "NoSpace": "not enough space in string buffer", "InvalidKey": "attempt to use next for an invalid key in hashmap",
    "ListEmpty": "list is empty", "NilNode": "attempt to erase a nilptr node", "Unpack": "unpack out of range",
}


# ------------------------------------------------------------------ (T) translator
def _scrape(txt, pat, what):
    m = re.search(pat, txt, re.S)
    if not m:
        raise RuntimeError("C12 gen: cannot find %s" % what)
    return m


def gen(ctx):
    hm = vlib.repo_read("lib/hashmap.nelua")
    vec = vlib.repo_read("lib/vector.nelua")
    seq = vlib.repo_read("lib/sequence.nelua")
    sb = vlib.repo_read("lib/stringbuilder.nelua")
    hs = vlib.repo_read("lib/hash.nelua")
    d = {}
    for nm in ("MAX_LOAD_FACTOR", "GROW_RATE", "INIT_CAPACITY"):
        d["HM_" + nm] = int(_scrape(hm, r"local\s+%s\s*:\s*usize\s*<comptime>\s*=\s*(\d+)" % nm, "hashmap " + nm).group(1))
    m = _scrape(vec, r"function vectorT_grow\(.*?local cap: usize = (\d+).*?cap = self\.data\.size \* (\d+)", "vectorT_grow policy")
    d["VEC_INIT_CAP"], d["VEC_GROW_MUL"] = int(m.group(1)), int(m.group(2))
    m = _scrape(seq, r"function sequenceT_grow\(.*?local cap: usize = (\d+).*?cap = curcap \* (\d+)", "sequenceT_grow policy")
    d["SEQ_INIT_CAP"], d["SEQ_GROW_MUL"] = int(m.group(1)), int(m.group(2))
    d["SB_INIT_CAPACITY"] = int(_scrape(sb, r"local INIT_CAPACITY: usize <comptime> = (\d+)", "stringbuilder INIT_CAPACITY").group(1))
    d["SB_GROW_MUL"] = int(_scrape(sb, r"while cap < needed do\s*cap = cap \* (\d+)", "stringbuilder growth").group(1))
    seeds = re.findall(r"\(@usize\)\(0x([0-9a-fA-F]+)\)", hs)
    if len(seeds) < 3 or len(set(seeds)) != 1:
        raise RuntimeError("C12 gen: hash seed constants in hash.nelua not found or not all equal: %r" % seeds)
    d["HASH_SEED"] = int(seeds[0], 16)
    # iterators.nelua impl_ipairs_next / ipairs: the step, the stop comparison, the one-indexing offset, the initial controls
    it = vlib.repo_read("lib/iterators.nelua")
    m = _scrape(it, r"local function impl_ipairs_next\(atype\)\s*k = k \+ (\d+)\s*if k (>=|>) \(#a \+ #\[atype\.is_oneindexing and (\d+) or (\d+)\]#\) then\s*"
                    r"return false, 0, #\[atype\.subtype\]#\(\)\s*end\s*return true, k, a\[k\]", "impl_ipairs_next")
    d["IP_STEP"], d["IP_STOP_GE"], d["IP_OFF_ONE"], d["IP_OFF_ZERO"] = int(m.group(1)), 1 if m.group(2) == ">=" else 0, int(m.group(3)), int(m.group(4))
    m2 = _scrape(it, r"local function impl_mipairs_next\(atype\)\s*k = k \+ (\d+)\s*if k (>=|>) \(#a \+ #\[atype\.is_oneindexing and (\d+) or (\d+)\]#\) then", "impl_mipairs_next")
    if (int(m2.group(1)), 1 if m2.group(2) == ">=" else 0, int(m2.group(3)), int(m2.group(4))) != (d["IP_STEP"], d["IP_STOP_GE"], d["IP_OFF_ONE"], d["IP_OFF_ZERO"]):
        raise RuntimeError("C12 gen: impl_mipairs_next steps differently from impl_ipairs_next (the model uses one stepping function for both)")
    inits = re.findall(r"return m?ipairs_next, a, #\[atype\.is_oneindexing and (-?\d+) or (-?\d+)\]#", it)
    if len(inits) != 2 or len(set(inits)) != 1:
        raise RuntimeError("C12 gen: initial controls of ipairs/mipairs not found or different: %r" % inits)
    d["IP_INIT_ONE"], d["IP_INIT_ZERO"] = int(inits[0][0]), int(inits[0][1])
    order = ["IP_STEP", "IP_STOP_GE", "IP_OFF_ONE", "IP_OFF_ZERO", "IP_INIT_ONE", "IP_INIT_ZERO", "HM_MAX_LOAD_FACTOR", "HM_GROW_RATE", "HM_INIT_CAPACITY", "VEC_INIT_CAP", "VEC_GROW_MUL", "SEQ_INIT_CAP",
             "SEQ_GROW_MUL", "SB_INIT_CAPACITY", "SB_GROW_MUL", "HASH_SEED"]
    txt = ("(* GENERATED by checks/C12.py from /repo/lib/{hashmap,vector,sequence,stringbuilder,hash,iterators}.nelua - do not edit *)\n"
           "From Coq Require Import ZArith.\n" + "".join("Definition %s : Z := (%d)%%Z.\n" % (k, d[k]) for k in order))
    vlib.write_if_changed(os.path.join(vlib.coq_dir(ID), "Gen.v"), txt)
    return d


# ------------------------------------------------------------------ the property oracle
class Violation(Exception):
    """the abstract operation's precondition fails: the implementation must stop with a check"""

    def __init__(self, kind):
        Exception.__init__(self, kind)
        self.kind = kind


def canon(t):
    return t - NZ if t >= NZ else t


def isnan(t):
    return t >= NAN


def teq(a, b):
    return not isnan(a) and not isnan(b) and canon(a) == canon(b)


def pred(m, r, t):
    return canon(t) % m == r


def sbbytes(t, n):
    return [((t * 31 + i * 7) % 251) + 1 for i in range(n)]


def lhash_list(l):
    h = 0
    for t in l:
        h = (h * 31 + t % HM) % HM
    return h


def ychk(pairs):
    """count and position-sensitive checksum of the (index, token) pairs an iterator yields"""
    h = 0
    for i, t in pairs:
        h = (h * 31 + i % HM) % HM
        h = (h * 31 + t % HM) % HM
    return "y%d#%d" % (len(pairs), h)


def pmix(k, v):
    return ((k % HM) * 7 + (v % HM) * 13 + 1) % HM


def index_of(l, x):
    for i, e in enumerate(l):
        if teq(e, x):
            return i
    return None


class OVec:
    """mathematical list, 0-based"""
    base = 0

    def __init__(self):
        self.l = []
        self.z = 0  # sequence's slot 0

    def size(self):
        return len(self.l)

    def step(self, op, a, b, c):
        l = self.l
        base = self.base
        if op == 1:
            l.append(a); return "-"
        if op == 2:
            if not l: raise Violation("PopEmpty")
            return str(l.pop())
        if op == 3:
            p = a - base
            if p < 0 or p > len(l): raise Violation("Pos")
            l.insert(p, b); return "-"
        if op == 4:
            p = a - base
            if p < 0 or p >= len(l): raise Violation("Pos")
            return str(l.pop(p))
        if op == 5:
            i = index_of(l, a)
            if i is None: return "0"
            l.pop(i); return "1"
        if op == 6:
            self.l = [e for e in l if not pred(a, b, e)]; return "-"
        if op == 7:
            self.l = l[:a] + [0] * (a - len(l)); return "-"
        if op == 8: return "-"
        if op == 9:
            self.l = []; return "-"
        if op == 10: return "-"
        if op == 11:
            if base == 1 and a == 0: return str(self.z)
            if base == 1 and a == len(l) + 1:
                l.append(0); return "0"
            p = a - base
            if p < 0 or p >= len(l): raise Violation("Pos")
            return str(l[p])
        if op == 12:
            if base == 1 and a == 0:
                self.z = b; return "-"
            if base == 1 and a == len(l) + 1:
                l.append(b); return "-"
            p = a - base
            if p < 0 or p >= len(l): raise Violation("Pos")
            l[p] = b; return "-"
        if op == 13:
            self.l = []; self.z = 0; return "-"
        if op == 14:
            self.l = [b + i * c for i in range(a)]; self.z = 0; return "-"
        if op == 15 and base == 1:
            i, j = [(1, 1), (1, 3), (2, 3)][a]
            if not (i >= 1 and j <= len(l) and i <= j): raise Violation("Unpack")
            return ",".join(str(x) for x in l[i - 1:j])
        if op == 16: return "c2"        # a separate to-be-closed container: this one is untouched
        if op == 17: return "m%d" % len(l)      # a walk through mnext: visits every element once
        if op == 18: return ychk([(i + base, x) for i, x in enumerate(l)])     # the pairs ipairs / pairs yields
        if op == 19 and base == 0:              # $x = a through the mipairs references, where the predicate holds
            self.l = [a if pred(b, c, e) else e for e in l]; return "-"
        raise KeyError(op)

    def contents(self):
        return list(self.l)


class OSeq(OVec):
    base = 1


class OList:
    def __init__(self):
        self.l = []

    def size(self):
        return len(self.l)

    def step(self, op, a, b, c):
        l = self.l
        if op == 1:
            l.insert(0, a); return "-"
        if op == 2:
            l.append(a); return "-"
        if op == 3:
            if not l: raise Violation("ListEmpty")
            return str(l.pop(0))
        if op == 4:
            if not l: raise Violation("ListEmpty")
            return str(l.pop())
        if op == 5:
            i = index_of(l, a)
            if i is None: l.append(b)
            else: l.insert(i, b)
            return str(b)
        if op == 6:
            i = index_of(l, a)
            if i is None: return "nf"
            l.pop(i)
            return str(l[i]) if i < len(l) else "nil"
        if op == 7:
            i = index_of(l, a)
            return str(-1 if i is None else i)
        if op == 8:
            self.l = []; return "-"
        if op == 9: return "1" if not l else "0"
        if op == 10: raise Violation("NilNode")
        if op == 11:
            self.l = []; return "-"
        if op == 12: return "c2"
        if op == 13: return "m%d" % len(l)
        if op == 14: return ychk(list(enumerate(l)))
        if op == 15:
            self.l = [a if pred(b, 0, e) else e for e in l]; return "-"
        raise KeyError(op)

    def contents(self):
        return list(self.l)


class OMap:
    """finite map keyed by the == class of the key token; remembers the stored key token.
    A key that is not == to itself (NaN) is never found: every assignment adds a binding, lookups and removals miss."""

    def __init__(self):
        self.d = {}     # canon key -> [stored key token, value]
        self.nan = []   # [key token, value] bindings with NaN keys

    def size(self):
        return len(self.d) + len(self.nan)

    def pairs(self):
        return sorted([(k, v) for k, v in self.d.values()] + [(k, v) for k, v in self.nan])

    def step(self, op, a, b, c):
        d = self.d
        ka = canon(a)
        an = isnan(a)
        found = (not an) and ka in d
        if op == 1:
            if an: self.nan.append([a, b])
            elif found: d[ka][1] = b
            else: d[ka] = [a, b]
            return "-"
        if op == 2:
            if an:
                self.nan.append([a, 0]); return "0"
            if not found: d[ka] = [a, 0]
            return str(d[ka][1])
        if op == 3: return str(d[ka][1]) if found else "nil"
        if op == 4: return "1" if found else "0"
        if op == 5: return "1,%d" % d[ka][1] if found else "0,0"
        if op == 6: return str(d.pop(ka)[1]) if found else "0"
        if op == 7:
            if found:
                d.pop(ka); return "1"
            return "0"
        if op == 8:
            d.clear(); self.nan = []; return "-"
        if op in (9, 10): return "-"
        if op == 11:
            vis = self.pairs()
            for k in [k for k, kv in d.items() if pred(a, b, kv[1])]:
                d.pop(k)
            return ("v", vis)
        if op == 12:
            if not found: raise Violation("InvalidKey")
            return ("next", ka)
        if op == 13: return ("next", None)
        if op == 14:
            return "p" + "".join("," + (str(d[canon(t)][1]) if canon(t) in d else "nil") for t in range(a, b + 1))
        if op == 15:
            for kv in d.values(): kv[1] += a
            for kv in self.nan: kv[1] += a
            return "-"
        if op == 16:
            # the traversal calls next(m, k) with every visited key: a NaN key is an invalid key for next
            if self.nan: raise Violation("InvalidKey")
            return ("v", self.pairs())
        if op == 19:
            ps = self.pairs()
            u = 0
            for k, v in ps: u = (u + pmix(k, v)) % HM
            return ("ypairs", len(ps), u)
        if op == 18:
            # mnext(m, k) looks every visited key up: a NaN key is an invalid key
            if self.nan: raise Violation("InvalidKey")
            return "m%d" % self.size()
        if op == 17:
            d.clear(); self.nan = []; return "-"
        raise KeyError(op)


class OSb:
    """byte string; with allow_fail (an allocator that may refuse) an operation may instead report failure,
    in which case the contents must be untouched"""

    def __init__(self, allow_fail=False):
        self.l = []
        self.allow_fail = allow_fail
        self.failures = 0

    def size(self):
        return len(self.l)

    def step(self, op, a, b, c, impl_ret=None):
        l = self.l
        if self.allow_fail and impl_ret is not None:
            failed = (op == 1 and a % 41 > 0 and impl_ret == "0,0") or (op == 2 and b > 0 and impl_ret == "0") or \
                     (op == 5 and impl_ret == "0") or (op == 3 and impl_ret == "0,0") or (op == 9 and impl_ret == "0")
            if failed:
                self.failures += 1
                return impl_ret          # reported failure: contents must be unchanged (checked by the caller)
        if op == 1:
            n = a % 41
            l.extend(sbbytes(a, n)); return "1,%d" % n
        if op == 2:
            l.extend([a & 255] * b); return "1"
        if op == 3:
            # the number of bytes the user wrote is bounded by the span the implementation handed out
            span, k = [int(x) for x in impl_ret.split(",")]
            if span < a: return ("bad", "prepare(%d) returned a span of %d bytes" % (a, span))
            if k != min(b, span): return ("bad", "driver wrote %d bytes, expected min(%d,%d)" % (k, b, span))
            l.extend(sbbytes(c, k)); return impl_ret
        if op == 4:
            if a > len(l): raise Violation("NoSpace")
            if a: del l[len(l) - a:]
            return "-"
        if op == 5:
            self.l = l[:a] + [0] * (a - len(l)); return "1"
        if op == 6:
            self.l = []; return "-"
        if op == 7:
            r = "%d:%s%s" % (len(l), "".join("%02x" % x for x in l), ":0" if l else "")
            self.l = []; return r
        if op == 8:
            if b >= 1: raise Violation("NoSpace")
            return impl_ret
        if op == 9:
            if int(impl_ret) < a: return ("bad", "prepare(%d) returned a span of %s bytes" % (a, impl_ret))
            return impl_ret
        if op == 10:
            self.l = []; return "-"
        if op in (11, 12, 13):
            parts = sb_parts(op, a, b, c)
            if self.allow_fail and impl_ret is not None and impl_ret.startswith("0,"):
                # write(a1, a2, ...) stops at the first argument it cannot store and reports the bytes written so far
                w = int(impl_ret[2:])
                for k in range(len(parts)):
                    if sum(len(x) for x in parts[:k]) == w:
                        for x in parts[:k]: l.extend(x)
                        self.failures += 1
                        return impl_ret
                return ("bad", "write reports %d bytes written, which is not a whole number of its arguments %s" % (w, [len(x) for x in parts]))
            for x in parts: l.extend(x)
            return "1,%d" % sum(len(x) for x in parts)
        raise KeyError(op)


def sb_parts(op, a, b, c):
    if op == 11: return [list(str(a).encode())]
    if op == 12: return [list(b"true" if a != 0 else b"false")]
    return [list(str(a).encode()), sbbytes(b, b % 41), list(b"true" if c != 0 else b"false")]


class OSpan:
    def __init__(self, n):
        self.l = list(range(1, n + 1))

    def size(self):
        return len(self.l)

    def step(self, op, a, b, c):
        n = len(self.l)
        if op == 1:
            if not (0 <= a < n): raise Violation("Index")
            return ("at", self.l[a])
        if op == 2:
            if not (0 <= a <= n and b <= n and a <= b): raise Violation("Index")
            return ("sub", self.l[a:b])
        if op == 3:       # s:sub(a,b)[c]
            if not (0 <= a <= n and b <= n and a <= b): raise Violation("Index")
            if not (0 <= c < b - a): raise Violation("Index")
            return ("at", self.l[a + c])
        if op == 5:       # ipairs over s:sub(a,b): (index, element) pairs flattened
            if not (0 <= a <= n and b <= n and a <= b): raise Violation("Index")
            return ("sub", [y for i, x in enumerate(self.l[a:b]) for y in (i, x)])
        if op == 4:       # s:sub(a,b):sub(c,#t)
            if not (0 <= a <= n and b <= n and a <= b): raise Violation("Index")
            if not (0 <= c <= b - a): raise Violation("Index")
            return ("sub", self.l[a:b][c:])
        raise KeyError(op)


def make_oracle(kind, n=0):
    if kind == 9:
        return OSb(allow_fail=True)
    return {1: OVec, 2: OSeq, 3: OList, 4: OMap, 5: OMap, 6: OSb, 10: OVec}[kind]() if kind != 7 else OSpan(n)


# ------------------------------------------------------------------ token universes
def universe(rng, typ, kind, size):
    """distinct tokens; includes the == corner of the type (negative zero) and, for hashmap integer keys,
    values that collide in every small bucket array"""
    u = set()
    if typ == 3:
        u.update([0, NZ, NAN])
    if typ == 2:
        u.update([0, NZ, 4, NZ + 4, 1, 2, 3, NAN, NAN + 1])
    base = rng.choice([0, 0, 1, -7, 100])
    while len(u) < size:
        r = rng.random()
        if typ == 2 and r < 0.15:
            u.add(NZ + 4 * rng.randrange(0, size))
        elif kind in (4, 5) and typ == 0 and r < 0.5:
            u.add(64 * rng.randrange(0, 4 * size) + rng.choice([0, 0, 0, 1, 8]))
        elif r < 0.8:
            u.add(base + rng.randrange(0, 2 * size))
        else:
            u.add(rng.randrange(-1000000, 1000000))
    u = sorted(u)
    rng.shuffle(u)
    return u


# ------------------------------------------------------------------ history generators
def thresholds(kind, maxsize):
    if kind in (1, 2):
        t = [1, 2, 4, 8, 16, 32, 64, 128, 256, 512, 1024]
    elif kind in (4, 5):
        t = [6, 12, 24, 48, 96, 192, 384, 768]
    elif kind == 6:
        t = [15, 16, 31, 32, 63, 64, 127, 128, 255, 256, 511, 512]
    else:
        t = [1, 2, 3, 5, 8, 13, 30]
    out = set()
    for x in t:
        for d in (-1, 0, 1):
            if 0 <= x + d <= maxsize:
                out.add(x + d)
    return sorted(out) or [0]


def gen_history(rng, kind, typ, nsteps, maxsize, big=False):
    """one valid history (every precondition holds); returns list of (op,a,b,c)"""
    o = make_oracle(kind)
    ops = []
    usize = 2 * maxsize + 4 if big else max(4, min(2 * maxsize + 4, rng.choice([6, 10, 20, 40, 2 * maxsize + 4])))
    univ = universe(rng, typ, kind, usize)
    ths = thresholds(kind, maxsize)
    target = rng.choice(ths[len(ths) // 2:]) if big else rng.choice(ths)
    pick = lambda: rng.choice(univ)

    def emit(op, a=0, b=0, c=0):
        ops.append((op, a, b, c))
        o.step(op, a, b, c)

    for _ in range(nsteps):
        n = o.size()
        if rng.random() < (0.004 if big else 0.04):
            target = rng.choice(ths[len(ths) // 3:]) if big else rng.choice(ths)
        grow = rng.random() < (0.75 if n < target else 0.3 if n == target else 0.12)
        r = rng.random()
        if kind in (1, 2):
            base = 0 if kind == 1 else 1
            if n >= maxsize: grow = False
            if grow:
                if r < 0.45: emit(1, pick())
                elif r < 0.85: emit(3, rng.choice([base, base + n, base + rng.randrange(0, n + 1), base + n - 1 if n else base]), pick())
                elif r < 0.93 and kind == 2: emit(rng.choice([11, 12]), n + 1, pick())
                else: emit(7, min(maxsize, n + rng.choice([1, 1, 2, 3, target - n if target > n else 1])))
            else:
                if r < 0.22 and n: emit(2)
                elif r < 0.44 and n: emit(4, rng.choice([base, base + n - 1, base + rng.randrange(0, n)]))
                elif r < 0.56: emit(5, pick() if not n or rng.random() < 0.3 else rng.choice(o.l))
                elif r < 0.62: emit(6, rng.choice([2, 3, 5, 7]), rng.randrange(0, 2))
                elif r < 0.70 and n: emit(11, base + rng.randrange(0, n))
                elif r < 0.78 and n: emit(12, base + rng.randrange(0, n), pick())
                elif r < 0.82 and kind == 2: emit(rng.choice([11, 12]), 0, pick())
                elif r < 0.86: emit(8, rng.choice([0, n, n + 1, 2 * n + 1, target]))
                elif r < 0.90: emit(10)
                elif r < 0.92: emit(7, rng.randrange(0, n + 1))
                elif r < 0.935: emit(9)
                elif r < 0.95: emit(13)
                elif r < 0.965:
                    b0 = pick()     # tokens b0, b0+c, ...: only plain tokens form a progression of valid tokens
                    emit(14, rng.choice([0, 1, 2, 3, 5, 8, min(maxsize, target)]), b0, 0 if b0 >= NZ else rng.choice([0, 1, 1, 3]))
                elif r < 0.98 and kind == 2 and n >= 1:
                    emit(15, rng.choice([0] + ([1, 2] if n >= 3 else [])))
                elif r < 0.975: emit(16, pick(), pick())
                elif r < 0.982: emit(17)
                elif r < 0.990: emit(18)
                elif r < 0.996 and kind == 1: emit(19, pick(), rng.choice([2, 3, 5, 7]), rng.randrange(0, 2))
                else: emit(1, pick())
        elif kind == 3:
            if n >= maxsize: grow = False
            if grow:
                if r < 0.3: emit(1, pick())
                elif r < 0.6: emit(2, pick())
                else: emit(5, pick() if not n or rng.random() < 0.3 else rng.choice(o.l), pick())
            else:
                if r < 0.2 and n: emit(3)
                elif r < 0.4 and n: emit(4)
                elif r < 0.65: emit(6, pick() if not n or rng.random() < 0.3 else rng.choice(o.l))
                elif r < 0.85: emit(7, pick() if not n or rng.random() < 0.3 else rng.choice(o.l))
                elif r < 0.92: emit(9)
                elif r < 0.94: emit(8)
                elif r < 0.955: emit(11)
                elif r < 0.95: emit(12, pick(), pick())
                elif r < 0.96: emit(13)
                elif r < 0.97: emit(14)
                elif r < 0.98: emit(15, pick(), rng.choice([2, 3, 5, 7]))
                else: emit(2, pick())
        elif kind in (4, 5):
            if n >= maxsize: grow = False
            live = [kv[0] for kv in o.d.values()]       # findable keys (NaN keys are never found: next(k) would trap)
            anykey = lambda: (rng.choice(live) if live and rng.random() < 0.6 else pick())
            def alias(k):  # the other spelling of the same key (negative zero), when there is one
                if typ in (2, 3) and not isnan(k) and canon(k) >= 0 and canon(k) % 4 == 0 and (typ == 2 or canon(k) == 0) and rng.random() < 0.5:
                    return canon(k) + NZ if k < NZ else canon(k)
                return k
            if grow:
                if r < 0.8: emit(1, alias(pick()), rng.randrange(0, 1000))
                elif r < 0.9: emit(2, alias(pick()))
                else: emit(9, rng.choice([n + 1, target, target + 1, 2 * n]))
            else:
                if r < 0.25: emit(rng.choice([6, 7]), alias(anykey()))
                elif r < 0.40: emit(rng.choice([3, 4, 5]), alias(anykey()))
                elif r < 0.48: emit(11, rng.choice([2, 3, 5]), rng.randrange(0, 2))
                elif r < 0.56: emit(10, rng.choice([0, 0, 0, 1, n, 2 * n, 64]))
                elif r < 0.62 and live: emit(12, alias(rng.choice(live)))
                elif r < 0.65: emit(13)
                elif r < 0.70 and not o.nan: emit(16)
                elif r < 0.715 and not o.nan: emit(18)
                elif r < 0.75: emit(19)
                elif r < 0.78:
                    lo = min(univ[:8]) ; emit(14, lo, lo + rng.randrange(0, 12))
                elif r < 0.82: emit(15, rng.randrange(1, 5))
                elif r < 0.835: emit(8)
                elif r < 0.845: emit(17)
                elif r < 0.9: emit(1, alias(anykey()), rng.randrange(0, 1000))
                else: emit(2, alias(anykey()))
    return ops


def gen_sb_history(rng, nsteps, maxsize, limit=None):
    """stringbuilder histories are generated without feedback from the implementation: the generator tracks a
    lower bound `lo` and an upper bound `hi` of the size, and only rolls back amounts <= lo.  With an allocator
    refusing requests of `limit` bytes or more, a growing operation is only known to succeed when the fallback
    request (size+1 bytes) is below the limit; otherwise `lo` is left alone."""
    ops = []
    lo = hi = 0
    ths = thresholds(6, maxsize)
    target = rng.choice(ths)

    def grown(x):
        nonlocal lo, hi
        if limit is None or hi + x + 1 < limit:
            lo += x
        hi += x

    def resized(n):
        nonlocal lo, hi
        if limit is None or n + 1 < limit:
            lo = hi = n
        else:
            lo, hi = min(lo, n), max(hi, n)

    for _ in range(nsteps):
        r = rng.random()
        if rng.random() < 0.05:
            target = rng.choice(ths)
        if hi < target and r < 0.7:
            q = rng.random()
            if q < 0.12:
                v = rng.choice([0, -1, 7, -9223372036854775808, 9223372036854775807, rng.randrange(-10**6, 10**6), s64(rng.getrandbits(64))])
                w = rng.random()
                if w < 0.4: ops.append((11, v, 0, 0)); grown(len(str(v)))
                elif w < 0.6: ops.append((12, v & 1, 0, 0)); grown(4 if v & 1 else 5)
                else:
                    t = rng.randrange(0, 500); cb = rng.randrange(0, 2)
                    ops.append((13, v, t, cb))
                    # under a refusing allocator only a prefix of the arguments may be written
                    x = len(str(v)) + t % 41 + (4 if cb else 5)
                    if limit is None or hi + x + 1 < limit: lo += x
                    hi += x
            elif q < 0.4:
                t = rng.randrange(0, 500); ops.append((1, t, 0, 0)); grown(t % 41)
            elif q < 0.6:
                n = rng.choice([0, 1, 1, 2, 5, max(0, target - hi), max(0, target - hi - 1)])
                ops.append((2, rng.randrange(1, 256), n, 0)); grown(n)
            elif q < 0.85:
                a = rng.choice([0, 1, 5, 16, max(0, target - hi)]); b = rng.choice([0, 1, 3, 15, 16, 40])
                ops.append((3, a, b, rng.randrange(0, 500)))
                # at least min(a,b) and at most b bytes are written when the prepare succeeds
                if limit is None or hi + max(a, b) + 1 < limit:
                    lo += min(a, b)
                hi += b
            else:
                n = min(maxsize, hi + rng.randrange(0, 20)); ops.append((5, n, 0, 0)); resized(n)
        else:
            q = rng.random()
            if q < 0.3:
                n = rng.choice([0, min(1, lo), lo, rng.randrange(0, lo + 1)]); ops.append((4, n, 0, 0)); lo -= n; hi -= n
            elif q < 0.5:
                n = rng.randrange(0, lo + 1); ops.append((5, n, 0, 0)); lo = hi = n
            elif q < 0.62: ops.append((9, rng.choice([0, 1, 7, 100]), 0, 0))
            elif q < 0.68:
                ops.append((6, 0, 0, 0)); lo = hi = 0
            elif q < 0.7:
                ops.append((10, 0, 0, 0)); lo = hi = 0
            elif q < 0.78 and limit is None:
                ops.append((7, 0, 0, 0)); lo = hi = 0
            else:
                t = rng.randrange(0, 500); ops.append((1, t, 0, 0)); grown(t % 41)
        if hi > maxsize:
            n = min(lo, maxsize // 2); ops.append((5, n, 0, 0)); lo = hi = n
    return ops


def gen_violation(rng, kind, typ):
    """a short valid prefix followed by one operation whose precondition fails; returns (n, ops, expected trap)"""
    n = 0
    if kind == 7:
        n = rng.randrange(0, 6)
        bad = rng.choice([(1, n, 0, 0), (1, n + rng.randrange(1, 100), 0, 0), (2, n + 1, n + 1, 0), (2, 0, n + 1, 0), (2, 2, 1, 0) if n >= 2 else (2, 1, 0, 0),
                          # inside the storage but outside the sub-span's window: only the window check can stop these
                          (3, 0, n // 2, n // 2), (3, 1, n - 1, n - 2) if n >= 3 else (3, 0, 0, 0), (4, 0, n // 2, n // 2 + 1)])
        pre = [(1, rng.randrange(0, n), 0, 0)] if n else []
        if bad == (2, 1, 0, 0) and n == 0:
            bad = (2, 1, 1, 0)
        return n, pre + [bad], "Index"
    pre = gen_sb_history(rng, rng.randrange(0, 12), 80) if kind == 6 else gen_history(rng, kind, typ, rng.randrange(0, 14), 12)
    o = make_oracle(kind)
    if kind != 6:
        for op in pre:
            o.step(*op)
    sz = o.size()
    if kind in (1, 2):
        base = kind - 1
        c = []
        if sz == 0: c.append(((2, 0, 0, 0), "PopEmpty"))
        c += [((3, base + sz + 1, 5, 0), "Pos"), ((4, base + sz, 0, 0), "Pos"), ((3, base + sz + 1 + rng.randrange(1, 1000), 5, 0), "Pos"),
              ((4, base + sz + rng.randrange(1, 1000), 0, 0), "Pos"), ((11, base + sz + base + rng.randrange(0, 50), 0, 0), "Pos"),
              ((12, base + sz + base + rng.randrange(0, 50), 9, 0), "Pos")]
        if kind == 2:
            c += [((4, 0, 0, 0), "Pos"), ((3, 0, 5, 0), "Pos")]
            if sz < 3: c += [((15, 1, 0, 0), "Unpack"), ((15, 2, 0, 0), "Unpack")]
            if sz < 1: c += [((15, 0, 0, 0), "Unpack")]
            # position size+1 is the auto-append slot for at/assign: not a violation (filtered below)
        c = [x for x in c if x[0] is not None and not (kind == 2 and x[0][0] in (11, 12) and x[0][1] == sz + 1)]
        if sz and rng.random() < 0.3:
            # empty it first, then pop
            pre = pre + [(9, 0, 0, 0)]
            c = [((2, 0, 0, 0), "PopEmpty")]
        bad, trap = rng.choice(c)
    elif kind == 3:
        if sz and rng.random() < 0.5:
            pre = pre + [(8, 0, 0, 0)]; sz = 0
        bad, trap = rng.choice(([((3, 0, 0, 0), "ListEmpty"), ((4, 0, 0, 0), "ListEmpty")] if sz == 0 else []) + [((10, 0, 0, 0), "NilNode")])
    elif kind in (4, 5):
        absent = 5000001 + rng.randrange(0, 100)
        bad, trap = (12, absent, 0, 0), "InvalidKey"
    else:
        # stringbuilder: rollback more than was written / commit more than was prepared
        if rng.random() < 0.5:
            pre = pre + [(6, 0, 0, 0), (1, 7, 0, 0)]          # size is now exactly 7
            bad, trap = (4, 8 + rng.randrange(0, 50), 0, 0), "NoSpace"
        else:
            # commit(span.size + b), b >= 1 (b = 1 was the defect repaired in /repo 8abaeda; also replayed from the corpus)
            bad, trap = (8, rng.choice([0, 1, 5, 40]), rng.choice([1, 1, 2, 3, 17]), 0), "NoSpace"
    return n, pre + [bad], trap


# ------------------------------------------------------------------ hash stream
def f2bits(x):
    return struct.unpack("<Q", struct.pack("<d", x))[0]


def s64(u):
    return u - (1 << 64) if u >= (1 << 63) else u


def gen_hash_cases(rng, n):
    cases = []
    fl = [0.0, -0.0, 1.0, -1.0, 1.5, -1.5, 0.1, 5e-324, -5e-324, 2.2250738585072014e-308, 2.225073858507201e-308,
          1.7976931348623157e308, -1.7976931348623157e308, float("inf"), float("-inf"), float("nan"), 3.0, 0.5, 0.75, 1e300, 123456789.125]
    bits = [f2bits(x) for x in fl] + [0x7FF8000000000001, 0xFFF0000000000001, 0x000FFFFFFFFFFFFF, 0x8000000000000001, 0x7FEFFFFFFFFFFFFF]
    for _ in range(n):
        q = rng.random()
        if q < 0.4: bits.append(rng.getrandbits(64))
        elif q < 0.7: bits.append(f2bits(rng.uniform(-1e6, 1e6)))
        else: bits.append((rng.getrandbits(1) << 63) | (rng.choice([0, 1, 2, 1022, 1023, 1024, 2046]) << 52) | rng.getrandbits(52))
    for b in bits:
        cases.append((2, s64(b), 0, 0))
        cases.append((6, s64(b), s64(b ^ (1 << 63)), 0))
        cases.append((6, s64(b), s64(b), 0))
    ints = [0, 1, -1, 2**63 - 1, -2**63, 255, -256] + [s64(rng.getrandbits(64)) for _ in range(n // 2)]
    for i in ints:
        cases.append((1, i, 0, 0))
        cases.append((5, i, 0, 0))
    for _ in range(n // 2):
        cases.append((3, rng.randrange(0, 500), rng.choice([0, 1, 2, 31, 32, 33, 63, 64, 65, 100, 1000, 4000]), 0))
    for b in bits[:40]:
        a = s64(rng.getrandbits(64)) if rng.random() < 0.5 else rng.randrange(-5, 5)
        cases.append((4, a, s64(b), 0))
        cases.append((4, a, s64(b ^ (1 << 63)), 0))
        cases.append((7, a, s64(b), 0))
    # arrays, pointers, spans, unions
    for _ in range(n // 3):
        a = s64(rng.getrandbits(64)) if rng.random() < 0.5 else rng.randrange(-50, 50)
        b = s64(rng.getrandbits(64)) if rng.random() < 0.5 else rng.randrange(-50, 50)
        cases.append((8, a >> 1, b >> 1, 0))
        cases.append((12, a, b, 0))
        cases.append((13, a, 0, 0))
        cases.append((10, a, 0, 0))
        cases.append((11, a, 0, 0))
    for b in bits[:60]:
        b2 = rng.choice(bits)
        cases.append((9, s64(b), s64(b2), 0))
        cases.append((9, s64(b), s64(b2 ^ (1 << 63)), 0))
    cases.append((14, 0, 0, 0))
    # float32 bit patterns: hash and ==, select, string ==
    b32 = [0, 0x80000000, 0x3f800000, 0xbf800000, 1, 0x80000001, 0x007fffff, 0x00800000, 0x7f7fffff, 0xff7fffff, 0x7f800000, 0xff800000,
           0x7fc00000, 0x7f800001, 0x3dcccccd, 0x4b800000] + [rng.getrandbits(32) for _ in range(max(20, n // 4))]
    for b in b32:
        cases.append((15, b, 0, 0))
        cases.append((16, b, b ^ 0x80000000, 0))
        cases.append((16, b, b, 0))
    cases.append((18, 10, 20, 0))        # the witness of the repaired select defect (/repo 6bf5a38): must print `20 30`
    for _ in range(6):
        a = s64(rng.getrandbits(64)); b = rng.randrange(-99, 99)
        cases += [(17, a, b, 0), (18, a, b, 0), (19, a, b, 0), (21, a, b, 0), (22, a, b, 0)]
    for _ in range(max(12, n // 10)):
        a = rng.randrange(0, 500)
        cases.append((20, a, rng.choice([a, a, a + 251, a + 1, rng.randrange(0, 500), a + 502]), 0))
    return cases


def str_case(a, b):
    """two strings of the same length built from the byte seeds a and b: ==, equal hashes (required when ==; for this byte
    hash also a consequence of it being a function of the bytes), and a string is never == to itself extended"""
    n = (a ^ b) % 5
    eq = sbbytes(a, n) == sbbytes(b, n)
    return "%d %d 0" % (eq, eq or lhash_bytes(sbbytes(a, n)) == lhash_bytes(sbbytes(b, n)))


def lhash_bytes(data):
    """hash.long over the bytes (independent re-implementation): seed 0x9e3779b9 ^ len, step (len >> 5) + 1"""
    M = (1 << 64) - 1
    ln = len(data); seed = (0x9e3779b9 ^ ln) & M; step = (ln >> 5) + 1
    while ln >= step:
        seed ^= (((seed << 5) & M) + (seed >> 2) + data[ln - 1]) & M
        ln -= step
    return seed


def py_feq32(a, b):
    fa = struct.unpack("<f", struct.pack("<I", a & 0xffffffff))[0]
    fb = struct.unpack("<f", struct.pack("<I", b & 0xffffffff))[0]
    return fa == fb


def py_feq(a, b):
    fa = struct.unpack("<d", struct.pack("<Q", a % (1 << 64)))[0]
    fb = struct.unpack("<d", struct.pack("<Q", b % (1 << 64)))[0]
    return fa == fb


# ------------------------------------------------------------------ running and comparing
def fmt_ops(kind, typ, ops, n=0, dump=0):
    out = []
    if dump:
        out.append("-2 1 0 0")
    out.append("0 %d %d %d" % (kind, typ, n))
    for i, (op, a, b, c) in enumerate(ops):
        out.append("%d %d %d %d" % (op, a, b, c))
    if dump:
        out.append("-2 0 0 0")
    return out


def parse_line(line):
    """'ret n1 n2 .. :body' -> (ret, [ints], body tokens)"""
    head, _, body = line.partition(" :")
    w = head.split()
    return w[0] if w else "", w[1:], body.split()


def sorted_pairs_from_ret(ret):
    # 'v,k=v,k=v' -> sorted list of (k,v)
    items = [x for x in ret.split(",")[1:] if x]
    return sorted(tuple(int(y) for y in it.split("=")) for it in items)


def check_step(kind, o, op, a, b, c, line, dump):
    """evaluate the property oracle on one output line (implementation's, or the abstract spec's with the
    capacity fields missing). Returns None or a message."""
    ret, nums, body = parse_line(line)
    if kind in (6, 9):
        exp = o.step(op, a, b, c, impl_ret=ret)
    else:
        exp = o.step(op, a, b, c)
    if isinstance(exp, tuple) and exp[0] == "bad":
        return exp[1]
    # return value
    if kind in (4, 5) and isinstance(exp, tuple):
        if exp[0] == "v":
            try:
                got = sorted_pairs_from_ret(ret)
            except ValueError:
                return "unparsable iteration %r" % ret
            if got != exp[1]:
                return "iteration visited %s, the map's bindings are %s (each binding exactly once expected)" % (got, exp[1])
        elif exp[0] == "ypairs":
            m = re.match(r"y(\d+)#(\d+)#(\d+)$", ret)
            if not m: return "unparsable yielded-pairs result %r" % ret
            if int(m.group(1)) != exp[1] or int(m.group(3)) != exp[2]:
                return "pairs(m) yielded %s bindings with sum %s, the map has %d bindings with sum %d (each binding exactly once expected)" % (m.group(1), m.group(3), exp[1], exp[2])
        elif exp[0] == "next" and not ret.startswith("*"):
            if ret != "end":
                try:
                    k, v = [int(x) for x in ret.split("=")]
                except ValueError:
                    return "unparsable next result %r" % ret
                ck = canon(k)
                if (k, v) not in o.pairs():
                    return "next returned %s which is not a binding of the map" % ret
                if exp[1] is not None and ck == exp[1]:
                    return "next(k) returned k itself"
            elif exp[1] is None and o.size():
                return "next() says the non-empty map is empty"
    elif kind == 7:
        if exp[0] == "at":
            if ret != str(exp[1]): return "span[%d] = %s, expected %d" % (a, ret, exp[1])
        else:
            if [int(x) for x in body] != exp[1]: return "sub(%d,%d) = %s, expected %s" % (a, b, body, exp[1])
        return None
    else:
        if ret != exp and not (ret.startswith("*")):
            return "returned %s, the abstract operation returns %s" % (ret, exp)
    # length
    n = o.size()
    if not nums or int(nums[0]) != n:
        return "length %s, abstract length %d" % (nums[0] if nums else "?", n)
    # contents
    if kind in (1, 2, 3):
        want = o.contents()
        if dump:
            if body != ["#%d" % lhash_list(want)]: return "contents checksum %s, abstract contents %s" % (body, want[:50])
        elif [int(x) for x in body] != want:
            return "contents %s, abstract list %s" % (" ".join(body), want)
    elif kind in (4, 5):
        want = o.pairs()
        if dump:
            u = 0
            for k, v in want: u = (u + pmix(k, v)) % HM
            if len(body) != 2 or body[1] != "#%d" % u: return "bindings checksum %s, abstract map %s" % (body, want[:50])
        else:
            try:
                got = sorted(tuple(int(y) for y in it.split("=")) for it in body)
            except ValueError:
                return "unparsable bindings %r" % body
            if got != want: return "pairs() yields %s, abstract map is %s" % (got, want)
    elif kind in (6, 9):
        want = "".join("%02x" % x for x in o.l)
        got = body[0] if body else ""
        if got != want: return "view() = %s, abstract byte string %s" % (got, want)
        if len(nums) >= 3:   # implementation line: len cap nul
            cap, nul = int(nums[1]), int(nums[2])
            if not ((cap == 0 and n == 0) or nul == 0):
                return "the byte after the contents is %d (capacity %d, size %d): the NUL slot is lost" % (nul, cap, n)
    return None


def describe(kind, typ, ops, upto):
    return "%s(%s): %s" % (KINDS[kind], TYPES.get(typ, "-"), "; ".join("%s %s" % (OPN.get(kind, {}).get(op, op), " ".join(str(x) for x in (a, b, c))) for op, a, b, c in ops[:upto + 1]))


def history_key(kind, typ, ops, upto, n=0):
    return "%d/%d/%d:" % (kind, typ, n) + ";".join("%d,%d,%d,%d" % o for o in ops[:upto + 1])


def shrink_prefix(kind, typ, ops, upto):
    return ops[:upto + 1]


def _run_chunks(driver, chunks, timeout, env=None, flush=True):
    """run the driver once per chunk (every chunk starts at a history header, so the driver state carries nothing
    over) and concatenate the printed lines; stops at the first chunk that fails.  Keeps each process' output
    below the pipeline's output cap."""
    out_lines = []
    rc, err = 0, ""
    for ch in chunks:
        text = "\n".join((["-1 0 0 0"] if flush else []) + ch) + "\n"
        rc, out, err = vlib.sh([driver], input=text, timeout=timeout, env=env)
        ol = out.split("\n")
        if rc != 0 and ol and ol[-1] != "":
            ol = ol[:-1]          # a partially written last line
        elif ol and ol[-1] == "":
            ol = ol[:-1]
        out_lines += ol
        if rc != 0:
            break
    return rc, out_lines, err


def chunked(groups, maxlines=250000):
    """groups: list of line lists (one per history); returns chunks of whole groups"""
    chunks, cur = [], []
    for g in groups:
        if cur and len(cur) + len(g) > maxlines:
            chunks.append(cur); cur = []
        cur = cur + g
    if cur:
        chunks.append(cur)
    return chunks


def run_batch(driver_impl, driver_model, chunks, timeout=1500):
    """the implementation runs in flush mode (op -1): if it dies or does not terminate, everything it printed
    before is kept and the first operation without an output line is the failing one"""
    rc1, il, ierr = _run_chunks(driver_impl, chunks, timeout)
    rc2, ml, merr = _run_chunks(driver_model, chunks, max(timeout, 600), flush=False)
    return rc1, il, ierr, rc2, ml, merr


def load_corpus():
    """corpus/C12/*.txt: '# comment', 'H kind typ n [dump]' then 'op a b c' lines; 'X trap' marks the last op as violating"""
    out = []
    d = os.path.join(vlib.VERIF, "corpus", ID)
    if not os.path.isdir(d):
        return out
    for f in sorted(os.listdir(d)):
        if not f.endswith(".txt"):
            continue
        cur = None
        for line in vlib.read(os.path.join(d, f)).split("\n"):
            w = line.split()
            if not w or w[0].startswith("#"):
                continue
            if w[0] == "H":
                cur = {"name": f, "kind": int(w[1]), "typ": int(w[2]), "n": int(w[3]) if len(w) > 3 else 0, "ops": [], "trap": None}
                out.append(cur)
            elif w[0] == "X":
                cur["trap"] = w[1]
            else:
                cur["ops"].append(tuple(int(x) for x in w[:4]))
    return out


def correspond(ctx):
    rng = ctx.rng
    drv_model = vlib.ocaml_build(ID)
    work = ctx.work
    drv_impl = os.path.join(work, "driver-%s" % vlib.sha_files([os.path.join(vlib.REPO, "lib", f) for f in os.listdir(os.path.join(vlib.REPO, "lib")) if f.endswith(".nelua")] + [os.path.join(vlib.VERIF, "harness", ID, "driver.nelua")])[:16])
    if not os.path.exists(drv_impl):
        for f in os.listdir(work):
            if f.startswith("driver-"):
                try: os.remove(os.path.join(work, f))
                except OSError: pass
        cdir = os.path.join(work, "nelua-cache-%d" % os.getpid())
        rc, o, e = vlib.nelua_build(os.path.join(vlib.VERIF, "harness", ID, "driver.nelua"), drv_impl, cache_dir=cdir)
        import shutil
        shutil.rmtree(cdir, ignore_errors=True)
        if rc != 0 or not os.path.exists(drv_impl):
            ctx.violation("harness-build", "harness", "the Nelua driver does not compile against the library: %s" % (o + e)[-1500:], failing_input=False)
            return {"evaluations": 0}
    # ---------------- histories
    hist = []      # dicts: kind typ n ops dump stream
    for c in load_corpus():
        if c["trap"] is None:
            hist.append({"kind": c["kind"], "typ": c["typ"], "n": c["n"], "ops": c["ops"], "dump": 0, "stream": "corpus"})
    import time as _time
    _t0 = _time.time(); phase_s = {}
    # thorough sizes are set so that the whole tier (Coq build, coqchk, both drivers, sanitizer replay) stays within ~20 minutes
    nsmall = ctx.scale(1500, 22000)
    nbig = ctx.scale(24, 330)
    kinds_w = [1, 1, 1, 2, 2, 2, 3, 3, 4, 4, 4, 4, 4, 5, 6, 6]
    for i in range(nsmall):
        kind = rng.choice(kinds_w)
        typ = 0 if kind in (5, 6) else rng.randrange(0, 4)
        nsteps = rng.choice([50, 60, 80, 120, 200])
        maxsize = rng.choice([9, 17, 33, 49, 70]) if kind != 6 else rng.choice([40, 70, 140, 300])
        ops = gen_sb_history(rng, nsteps, maxsize) if kind == 6 else gen_history(rng, kind, typ, nsteps, maxsize)
        hist.append({"kind": kind, "typ": typ, "n": 0, "ops": ops, "dump": 0, "stream": "threshold-biased"})
    for i in range(nbig):
        kind = rng.choice([1, 2, 3, 4, 4, 4, 5, 6])
        typ = 0 if kind in (5, 6) else rng.randrange(0, 4)
        nsteps = rng.choice([1000, 2000, 5000])
        maxsize = rng.choice([130, 200, 400, 800]) if kind != 5 else 100
        ops = gen_sb_history(rng, nsteps, 1100) if kind == 6 else gen_history(rng, kind, typ, nsteps, maxsize, big=True)
        hist.append({"kind": kind, "typ": typ, "n": 0, "ops": ops, "dump": 1, "stream": "long"})
    # stringbuilder over an allocator that refuses requests of `limit` bytes or more
    for i in range(ctx.scale(80, 1200)):
        limit = rng.choice([17, 24, 33, 40, 65, 70, 100, 129, 200, 300])
        ops = gen_sb_history(rng, rng.choice([40, 80, 150]), rng.choice([40, 70, 140, 300]), limit=limit)
        hist.append({"kind": 9, "typ": 0, "n": limit, "ops": ops, "dump": 0, "stream": "allocation-failure"})
    # span: valid accesses
    for i in range(ctx.scale(20, 400)):
        n = rng.randrange(0, 12)
        ops = []
        for _ in range(12):
            r = rng.random()
            a = rng.randrange(0, n + 1); b = rng.randrange(a, n + 1)
            if n and r < 0.3: ops.append((1, rng.randrange(0, n), 0, 0))
            elif r < 0.55: ops.append((2, a, b, 0))
            elif r < 0.7 and b > a: ops.append((3, a, b, rng.randrange(0, b - a)))        # element of a sub-span
            elif r < 0.85: ops.append((5, a, b, 0))                                           # ipairs over a sub-span
            else: ops.append((4, a, b, rng.randrange(0, b - a + 1)))                         # sub-span of a sub-span
        hist.append({"kind": 7, "typ": 0, "n": n, "ops": ops, "dump": 0, "stream": "span"})
    groups = []
    for hi_, h in enumerate(hist):
        groups.append(fmt_ops(h["kind"], h["typ"], h["ops"], h["n"], h["dump"]))

    def owner_of(line_no):
        """(history index, step index or -1 for the header) of the line_no-th line the implementation prints"""
        acc = 0
        for hi2, h2 in enumerate(hist):
            if line_no < acc + 1 + len(h2["ops"]):
                return hi2, line_no - acc - 1
            acc += 1 + len(h2["ops"])
        return max(len(hist) - 1, 0), -1
    hash_cases = gen_hash_cases(rng, ctx.scale(300, 10000))
    groups.append(fmt_ops(8, 0, hash_cases))
    batch_chunks = chunked(groups)
    rc1, il, ierr, rc2, ml, merr = run_batch(drv_impl, drv_model, batch_chunks, timeout=ctx.scale(150, 1500))
    nexp = sum(1 + len(h["ops"]) for h in hist) + 1 + len(hash_cases)
    if rc2 != 0 or len(ml) < nexp:
        ctx.violation("model-driver-run", "harness", "model driver rc=%s, %d of %d lines: %s" % (rc2, len(ml), nexp, merr[-400:]), failing_input=False)
        return {"evaluations": 0}
    stats = {"kinds": {}, "types": {}, "ops": {}, "streams": {}, "history_len": {}, "growth_events": 0, "max_len": {}, "traps": {}, "nan_value_ops": 0}
    nontrivial = set()
    n_oracle = n_mismatch = n_spec = 0
    evaluations = 0
    pos = 0
    impl_dead = rc1 != 0 or len(il) < nexp
    pos_dead = False

    def bump(d, k, by=1):
        d[k] = d.get(k, 0) + by

    sb_failures = 0
    prev_o = None
    for h in hist:
        if prev_o is not None and isinstance(prev_o, OSb):
            sb_failures += prev_o.failures
        if pos_dead:
            break
        kind, typ, ops, dump = h["kind"], h["typ"], h["ops"], h["dump"]
        o = make_oracle(kind, h["n"])
        prev_o = o
        osp = make_oracle(kind, h["n"])
        bump(stats["kinds"], KINDS[kind]); bump(stats["streams"], h["stream"])
        if kind not in (5, 6, 7): bump(stats["types"], TYPES[typ])
        bump(stats["history_len"], "<=100" if len(ops) <= 100 else "<=500" if len(ops) <= 500 else ">500")
        pos += 1  # header line
        lastcap = None
        broken = False          # the property oracle failed in this history: nothing after it is meaningful
        broken_model = False    # model and implementation diverged: stop comparing them, keep evaluating the oracle
        for i, (op, a, b, c) in enumerate(ops):
            iline = il[pos] if pos < len(il) else None
            mline = ml[pos]
            pos += 1
            if broken:
                if iline is None:
                    pos_dead = True     # the implementation died/hung later in this already failing history
                    break
                continue
            evaluations += 1
            bump(stats["ops"], "%s.%s" % (KINDS[kind].split("-")[0], OPN[kind].get(op, op)))
            if kind not in (6, 7) and (isnan(a) or (isnan(b) and kind in (1, 2, 3))):
                bump(stats, "nan_value_ops")
            mmodel, _, mspec = mline.partition(" || ")
            if iline is None:
                iline = "<no output>"
                msg = ("the implementation %s at this operation (exit status %s%s); the model answers '%s'" %
                       ("did not terminate within the time limit" if rc1 == 124 else "stopped", rc1,
                        (", stderr: " + ierr.strip()[-200:]) if ierr.strip() else "", mmodel[:200]))
                n_oracle += 1
                if n_oracle <= 6:
                    ctx.violation(history_key(kind, typ, ops, i, h["n"]), "oracle", "%s step %d (%s %d %d %d): %s" % (KINDS[kind], i, OPN[kind].get(op, op), a, b, c, msg),
                                  detail={"history": describe(kind, typ, ops, i), "model": mmodel[:2000],
                                          "replay": "printf '%s\\n' | <driver built from harness/C12/driver.nelua>" % "\\n".join(fmt_ops(kind, typ, ops[:i + 1], h["n"], dump))})
                pos_dead = True
                break
            try:
                msg = check_step(kind, o, op, a, b, c, iline, dump)
            except Violation as v:
                msg = "generator produced a violating op in the valid stream (%s)" % v.kind
            except (ValueError, IndexError) as ex:
                msg = "unparsable implementation output %r (%s)" % (iline[:200], ex)
            if o.size() > 0:
                nontrivial.add((kind, typ, op, a, b, o.size()))
            _, nums, _ = parse_line(iline)
            if len(nums) >= 2 and kind in (1, 2, 4, 5, 6):
                if lastcap is not None and nums[1] != lastcap:
                    stats["growth_events"] += 1
                lastcap = nums[1]
            stats["max_len"][KINDS[kind]] = max(stats["max_len"].get(KINDS[kind], 0), o.size())
            if msg is not None:
                n_oracle += 1
                broken = True
                if n_oracle <= 6:
                    key = history_key(kind, typ, ops, i, h["n"])
                    ctx.violation(key, "oracle", "%s step %d (%s %d %d %d): %s" % (KINDS[kind], i, OPN[kind].get(op, op), a, b, c, msg),
                                  detail={"history": describe(kind, typ, ops, i), "implementation": iline[:2000], "model": mmodel[:2000],
                                          "replay": "printf '%s\\n' | <driver built from harness/C12/driver.nelua>" % "\\n".join(fmt_ops(kind, typ, ops[:i + 1], h["n"], dump))})
                continue
            if broken_model:
                continue
            if mmodel != iline:
                n_mismatch += 1
                broken_model = True
                if n_mismatch <= 3:
                    ctx.violation("model-mismatch:%s.%s" % (KINDS[kind], OPN[kind].get(op, op)), "correspondence",
                                  "the model of %s no longer corresponds to the code at step %d (%s %d %d %d): model '%s', implementation '%s' (the abstract list/map agrees with the implementation)" % (KINDS[kind], i, OPN[kind].get(op, op), a, b, c, mmodel[:300], iline[:300]),
                                  detail={"history": describe(kind, typ, ops, i), "no_longer_checks": "correspondence stream C12/%s" % KINDS[kind],
                                          "replay": "\n".join(fmt_ops(kind, typ, ops[:i + 1], h["n"], dump))}, failing_input=False)
                continue
            if kind != 7 and mspec:
                try:
                    smsg = check_step(kind, osp, op, a, b, c, mspec, dump)
                except Exception as ex:  # noqa
                    smsg = "spec line unparsable: %r (%s)" % (mspec[:200], ex)
                if smsg is not None:
                    n_spec += 1
                    broken_model = True
                    if n_spec <= 2:
                        ctx.violation("spec-mismatch:%s.%s" % (KINDS[kind], OPN[kind].get(op, op)), "correspondence",
                                      "the extracted abstract specification (the theorems' right-hand side) disagrees with the Python oracle: %s" % smsg,
                                      detail={"history": describe(kind, typ, ops, i), "spec": mspec[:500]}, failing_input=False)
    phase_s['valid_histories'] = round(_time.time() - _t0, 1); _t0 = _time.time()
    # ---------------- hash stream: correspondence + coherence oracle
    pos += 1
    hash_vals = {}
    n_hash = 0
    sel_reported = False
    for (op, a, b, c) in ([] if pos_dead else hash_cases):
        iline = il[pos] if pos < len(il) else "<none>"
        mline = ml[pos]
        pos += 1
        evaluations += 1
        n_hash += 1
        bump(stats["ops"], "hash.%s" % {1: "integer", 2: "float", 3: "string", 4: "record", 5: "boolean", 6: "float==", 7: "record==", 8: "array-of-integer", 9: "array-of-float", 10: "typed-pointer", 11: "pointer", 12: "span-of-integer", 13: "union", 14: "empty-array", 15: "float32", 16: "float32==", 17: "select#", 18: "select(2)", 19: "select(-1)", 20: "string==", 21: "select(-2)", 22: "select(1)"}[op])
        if op == 6:
            if iline != ("1" if py_feq(a, b) else "0"):
                n_oracle += 1
                ctx.violation("hash:feq %d %d" % (a, b), "oracle", "float == on bit patterns %x, %x gives %s" % (a % 2**64, b % 2**64, iline))
        if op == 16:
            if iline != ("1" if py_feq32(a, b) else "0"):
                n_oracle += 1
                ctx.violation("hash:feq32 %d %d" % (a, b), "oracle", "float32 == on bit patterns %x, %x gives %s" % (a, b, iline))
        if op == 18 and iline == "%d nil" % b:
            # regression of /repo 6bf5a38 (select returned only its i-th argument); one class of input, one key
            n_oracle += 1
            if not sel_reported:
                sel_reported = True
                ctx.violation("iterators:select(2, a, b, c) returns only b", "oracle",
                              "select(i, ...) returns only its i-th argument instead of `all arguments after argument number index` (iterators.nelua's own documentation, and Lua): `local x, y = select(2, %d, %d, %d)` gives x = %d and y = nil" % (a, b, a ^ b, b),
                              detail={"program": "require 'iterators'\nlocal x, y = select(2, %d, %d, %d)\nprint(x, y)   -- prints '%d nil', Lua prints '%d %d'" % (a, b, a ^ b, b, b, a ^ b)})
        elif (op == 17 and iline != "3" or op == 18 and iline != "%d %d" % (b, a ^ b) or op == 19 and iline != "%d" % (a ^ b) or op == 20 and iline != str_case(a, b)
              or op == 21 and iline != "%d %d" % (b, a ^ b) or op == 22 and iline != "%d %d %d" % (a, b, a ^ b)):
            n_oracle += 1
            ctx.violation("iterators:select/string %d %d %d" % (op, a, b), "oracle", "select / string == case %d on (%d, %d) printed %s" % (op, a, b, iline))
        if op in (2, 4, 9, 15):
            hash_vals[(op, a, b)] = iline
        if iline != mline and not (op == 18 and iline == "%d nil" % b and sel_reported):
            n_mismatch += 1
            if n_mismatch <= 3:
                ctx.violation("model-mismatch:hash.%d" % op, "correspondence", "hash model differs from hash.hash on case %d %d %d: model %s, implementation %s" % (op, a, b, mline, iline),
                              detail={"case": [op, a, b]}, failing_input=False)
    # coherence: values that are == must hash alike
    for (op, a, b), hv in hash_vals.items():
        if op == 2:
            other = (2, s64((a % 2**64) ^ (1 << 63)), 0)
            if other in hash_vals and py_feq(a, other[1]) and hash_vals[other] != hv:
                n_oracle += 1
                ctx.violation("hash:float %d" % a, "oracle", "floats with bit patterns %x and %x are == but hash to %s and %s" % (a % 2**64, other[1] % 2**64, hv, hash_vals[other]))
        if op == 15:
            other = (15, a ^ 0x80000000, 0)
            if other in hash_vals and py_feq32(a, other[1]) and hash_vals[other] != hv:
                n_oracle += 1
                ctx.violation("hash:float32 %d" % a, "oracle", "float32 values with bit patterns %x and %x are == but hash to %s and %s" % (a, other[1], hv, hash_vals[other]))
        if op == 9:
            other = (9, a, s64((b % 2**64) ^ (1 << 63)))
            if other in hash_vals and py_feq(b, other[2]) and hash_vals[other] != hv:
                n_oracle += 1
                ctx.violation("hash:float-array %d %d" % (a, b), "oracle", "arrays {bits %x, bits %x} and {bits %x, bits %x} are element-wise == but hash to %s and %s" % (a % 2**64, b % 2**64, a % 2**64, other[2] % 2**64, hv, hash_vals[other]))
        if op == 4:
            other = (4, a, s64((b % 2**64) ^ (1 << 63)))
            if other in hash_vals and py_feq(b, other[2]) and hash_vals[other] != hv:
                n_oracle += 1
                ctx.violation("hash:record %d %d" % (a, b), "oracle", "records {%d, bits %x} and {%d, bits %x} are == but hash to %s and %s" % (a, b % 2**64, a, other[2] % 2**64, hv, hash_vals[other]))
    if impl_dead and n_oracle == 0:
        ctx.violation("impl-driver-run", "harness", "implementation driver rc=%s, %d of %d lines: %s" % (rc1, len(il), nexp, ierr[-400:]), failing_input=False)
    phase_s['hash_stream'] = round(_time.time() - _t0, 1); _t0 = _time.time()
    del ml      # the model's lines are not needed any more
    # ---------------- the same histories under AddressSanitizer + UBSan (a test, not an obligation)
    asan_info = {"ran": False}
    if not pos_dead and n_oracle == 0:
        drv_asan = drv_impl + "-asan"
        if not os.path.exists(drv_asan):
            cdir = os.path.join(work, "nelua-cache-asan-%d" % os.getpid())
            rc, o_, e_ = vlib.nelua_build(os.path.join(vlib.VERIF, "harness", ID, "driver.nelua"), drv_asan, cache_dir=cdir,
                                          extra=["-P", "nogc", "--cflags=-fsanitize=address,undefined -fno-omit-frame-pointer -g"])
            import shutil
            shutil.rmtree(cdir, ignore_errors=True)
            if rc != 0 or not os.path.exists(drv_asan):
                ctx.note("ASan build of the driver failed: %s" % (o_ + e_)[-400:])
                drv_asan = None
        if drv_asan:
            rc3, al_, aerr = _run_chunks(drv_asan, batch_chunks, ctx.scale(600, 3000),
                                         env={"ASAN_OPTIONS": "detect_leaks=0", "UBSAN_OPTIONS": "halt_on_error=1:print_stacktrace=0"})
            report = [x for x in aerr.split("\n") if "Sanitizer" in x or "runtime error" in x]
            asan_info = {"ran": True, "exit_status": rc3, "lines": len(al_), "sanitizer_reports": report[:5],
                         "identical_to_plain_build": al_ == il[:len(al_)] and len(al_) == len(il)}
            if rc3 != 0 or report:
                hi_, st = owner_of(len(al_))
                h = hist[hi_]
                st = max(st, 0)
                n_oracle += 1
                ctx.violation("sanitizer:" + history_key(h["kind"], h["typ"], h["ops"], st, h["n"]), "oracle",
                              "%s step %d: the sanitizer build stops here (exit status %s): %s" % (KINDS[h["kind"]], st, rc3, (report or [aerr.strip()[-200:]])[0][:300]),
                              detail={"history": describe(h["kind"], h["typ"], h["ops"], st), "stderr": aerr[-1500:],
                                      "replay": "\n".join(fmt_ops(h["kind"], h["typ"], h["ops"][:st + 1], h["n"], h["dump"]))})
            elif not asan_info["identical_to_plain_build"]:
                ctx.violation("sanitizer-output-differs", "harness", "the sanitizer build prints different results than the plain build (%d vs %d lines)" % (len(al_), len(il)), failing_input=False)
    # the streams below start one process per history; vlib forks the checker for every one of them, which costs time
    # proportional to the checker's memory: drop the big batch first
    n_hist = len(hist)
    samples_h = [describe(h["kind"], h["typ"], h["ops"], 5) for h in hist[:2]]
    del il, groups, batch_chunks, hist, hash_cases
    al_ = None
    import gc
    gc.collect()
    phase_s['sanitizer_replay'] = round(_time.time() - _t0, 1); _t0 = _time.time()
    # ---------------- precondition-violating stream (one process per history)
    viol = []
    for cc in load_corpus():
        if cc["trap"] is not None:
            viol.append((cc["kind"], cc["typ"], cc["n"], cc["ops"], cc["trap"], "corpus"))
    for i in range(ctx.scale(70, 800)):
        kind = rng.choice([1, 1, 2, 2, 2, 3, 4, 5, 6, 6, 7])
        typ = 0 if kind in (5, 6, 7) else rng.randrange(0, 4)
        n, ops, trap = gen_violation(rng, kind, typ)
        viol.append((kind, typ, n, ops, trap, "generated"))
    n_viol = 0
    for kind, typ, n, ops, trap, stream in viol:
        lines = ["-1 0 0 0"] + fmt_ops(kind, typ, ops, n)
        text = "\n".join(lines) + "\n"
        rc1, iout, ierr = vlib.sh([drv_impl], input=text, timeout=60)
        rc2, mout, merr = vlib.sh([drv_model], input=text, timeout=60)
        il2 = [x for x in iout.split("\n") if x]
        ml2 = [x for x in mout.split("\n") if x]
        n_viol += 1
        evaluations += 1
        bump(stats["traps"], "%s:%s" % (KINDS[kind].split("-")[0], trap))
        bad = ops[-1]
        key = "violating:" + history_key(kind, typ, ops, len(ops) - 1, n)
        stopped = rc1 != 0 and len(il2) == len(ops)          # header + all but the last op printed
        msg_ok = MSG[trap] in ierr
        mlast = ml2[len(ops)].partition(" || ")[0] if len(ml2) > len(ops) else "<none>"
        if rc1 != 0 and len(il2) < len(ops):
            # died inside the valid prefix: a failure of that earlier operation
            k = max(0, len(il2) - 1)
            n_oracle += 1
            pop = ops[k]
            ctx.violation(history_key(kind, typ, ops, k, n), "oracle",
                          "%s(%s) step %d (%s %d %d %d) is valid but the implementation stopped there (exit status %s): %s" %
                          (KINDS[kind], TYPES.get(typ, "-"), k, OPN[kind].get(pop[0], pop[0]), pop[1], pop[2], pop[3], rc1, ierr.strip()[-200:]),
                          detail={"history": describe(kind, typ, ops, k), "replay": "printf '%s\\n' | <driver>" % "\\n".join(lines[:k + 3])})
        elif not stopped or not msg_ok:
            n_oracle += 1
            what = ("was not stopped: the driver went on and printed '%s'" % (il2[len(ops)][:200] if len(il2) > len(ops) else "?")) if not stopped else \
                   ("stopped, but not with the documented message '%s': %s" % (MSG[trap], ierr[-200:]))
            ctx.violation(key, "oracle", "%s(%s): %s %d %d %d violates its precondition (%s) on a container of the history below and %s" %
                          (KINDS[kind], TYPES.get(typ, "-"), OPN[kind].get(bad[0], bad[0]), bad[1], bad[2], bad[3], trap, what),
                          detail={"history": describe(kind, typ, ops, len(ops) - 1), "stderr": ierr[-400:], "model": mlast,
                                  "replay": "printf '%s\\n' | <driver>" % "\\n".join(lines)})
        else:
            # model must trap the same way, and agree on the prefix
            if mlast != "TRAP " + trap:
                n_mismatch += 1
                ctx.violation("model-mismatch:violating.%s.%s" % (KINDS[kind], OPN[kind].get(bad[0], bad[0])), "correspondence",
                              "implementation stops with '%s' but the model answers '%s'" % (MSG[trap], mlast),
                              detail={"history": describe(kind, typ, ops, len(ops) - 1)}, failing_input=False)
            elif [x.partition(" || ")[0] for x in ml2[:len(ops)]] != il2[:len(ops)]:
                n_mismatch += 1
                ctx.violation("model-mismatch:violating-prefix.%s" % KINDS[kind], "correspondence", "prefix of a violating history differs between model and implementation",
                              detail={"history": describe(kind, typ, ops, len(ops) - 1), "model": ml2[:len(ops)], "implementation": il2[:len(ops)]}, failing_input=False)
    phase_s['violating_stream'] = round(_time.time() - _t0, 1); _t0 = _time.time()
    # ---------------- vector / sequence / hashmap / list over an allocator refusing requests of `limit` bytes or more:
    # the operation for which the model predicts a refused request (TRAP OOM) must stop with 'out of memory',
    # everything before it behaves as usual (one process per history)
    n_oom = 0
    for i in range(ctx.scale(80, 700)):
        kind = rng.choice([10, 11, 12, 12, 13])
        base = BASEKIND[kind]
        limit = rng.choice({10: [16, 24, 64, 100, 128, 520, 1024], 11: [20, 30, 40, 64, 100, 130, 520, 1024],
                            12: [60, 200, 400, 1000, 3000, 7000], 13: [20, 24, 25, 100]}[kind])
        ops = gen_history(rng, base, 0, rng.choice([20, 60, 120]), rng.choice([9, 17, 33, 70]))
        # the scoped to-be-closed container of the harness allocates too: leave it out here
        ops = [o_ for o_ in ops if not ((base in (1, 2) and o_[0] == 16) or (base == 3 and o_[0] == 12))]
        lines = ["-1 0 0 0"] + fmt_ops(kind, 0, ops, limit)
        text = "\n".join(lines) + "\n"
        rc1, iout, ierr = vlib.sh([drv_impl], input=text, timeout=60)
        rc2, mout, merr = vlib.sh([drv_model], input=text, timeout=60)
        il2 = [x for x in iout.split("\n") if x][1:]
        ml2 = [x.partition(" || ")[0] for x in mout.split("\n") if x][1:]
        n_oom += 1
        evaluations += 1
        stop = None
        for k, ln in enumerate(ml2):
            if ln.startswith("TRAP OOM"):
                stop = k
                break
        bump(stats["traps"], "%s:%s" % (KINDS[kind], "OutOfMemory" if stop is not None else "limit-not-reached"))
        o = make_oracle(base)
        bad = None
        upto = len(ops) if stop is None else stop
        for k in range(upto):
            if k >= len(il2):
                bad = (k, "the implementation stopped (exit status %s: %s) although the model sees no refused allocation (limit %d bytes)" % (rc1, ierr.strip()[-120:], limit))
                break
            try:
                msg = check_step(base, o, ops[k][0], ops[k][1], ops[k][2], ops[k][3], il2[k], 0)
            except Violation as v_:
                msg = "generator produced a violating op (%s)" % v_.kind
            if msg is None and il2[k] != ml2[k]:
                n_mismatch += 1
                ctx.violation("model-mismatch:%s" % KINDS[kind], "correspondence", "step %d: model '%s', implementation '%s'" % (k, ml2[k][:200], il2[k][:200]),
                              detail={"history": describe(kind, 0, ops, k), "limit": limit}, failing_input=False)
                break
            if msg is not None:
                bad = (k, msg)
                break
        if bad is None and stop is not None:
            if len(il2) > stop:
                bad = (stop, "needs a block the allocator refuses (limit %d bytes) according to the model, but went on and printed '%s'" % (limit, il2[stop][:200]))
            elif rc1 == 0 or "out of memory" not in ierr:
                bad = (stop, "was stopped, but not with 'out of memory': exit status %s, %s" % (rc1, ierr.strip()[-200:]))
        if bad is not None:
            n_oracle += 1
            k, msg = bad
            ctx.violation(history_key(kind, 0, ops, k, limit), "oracle", "%s (limit %d bytes), step %d (%s %d %d %d): %s" %
                          (KINDS[kind], limit, k, OPN[kind].get(ops[k][0], ops[k][0]), ops[k][1], ops[k][2], ops[k][3], msg),
                          detail={"history": describe(kind, 0, ops, k), "replay": "printf '%s\\n' | <driver>" % "\\n".join(lines[:k + 3])})
    return {
        "evaluations": evaluations,
        "distinct_nontrivial": len(nontrivial),
        "rule": "histories = corpus + threshold-biased random histories (50..200 steps, sizes hovering at capacity-1/capacity/capacity+1 and the load-factor edge, rehash(0) after erasures, removal during iteration, negative-zero key aliases) + long histories (1000..5000 steps, checksummed dumps) + span accesses + hash cases + precondition-violating histories (one process each); non-trivial = distinct (container, type, op, args, abstract length) with a non-empty container",
        "samples": samples_h + [describe(v[0], v[1], v[3], len(v[3]) - 1)[:300] for v in viol[:2]],
        "distribution": stats,
        "histories": n_hist,
        "violating_histories": n_viol,
        "out_of_memory_histories": n_oom,
        "sanitizer_run": asan_info,
        "stringbuilder_reported_allocation_failures": sb_failures,
        "hash_cases": n_hash,
        "oracle_failures": n_oracle,
        "model_mismatches": n_mismatch,
        "spec_vs_oracle_mismatches": n_spec,
        "traces_validated_against_impl": evaluations,
        "unproved": UNPROVED,
        "phase_s": dict(phase_s, allocation_failure_stream=round(_time.time() - _t0, 1)),
    }


UNPROVED = [
    "model = code is not a theorem: lib/{vector,sequence,list,hashmap,span,stringbuilder,hash}.nelua are mirrored by hand in coq/C12/Model.v (one Gallina function per source function); the tie is the scraped constants (Gen.v) plus the step-by-step differential runs of the compiled library against the extracted model and the Python oracle, also under ASan/UBSan",
    "lib/iterators.nelua is modelled as stateless iterator triples driven by a generic for loop (Model.v: for_in/for_do/ip_next, vec_ipairs, span_ipairs, seq_pairs, dl_pairs, hm_for_pairs, vec_mipairs_map, dl_mpairs_map, hm_for_mpairs); PROVED: ipairs over vector and span, pairs over list and hashmap visit exactly the abstract contents in order, the vector reference of mipairs aliases the element and the whole `$x = f($x)` loop is the element-wise update, the list/hashmap references of mnext are the node whose value next yields. ALSO PROVED since: pairs over sequence, the whole `$x = f($x)` loops through mpairs of list and hashmap (= hm_mapvals); `for` bodies that change the container's shape are outside the model. Tie to the code: the stepping policy of impl_ipairs_next/impl_mipairs_next and the initial controls are scraped (Gen.v IP_*; the proofs use them), the (index, element) pairs yielded by ipairs (vector, sub-span) and pairs (sequence, list) are compared with the extracted iterator model's (count + position-sensitive checksum, full list for spans), the update loops through mipairs (vector) and mpairs (list, hashmap) run against the extracted model loops; for the hashmap the (key, value) pairs pairs(m) yields are compared with the extracted model's node order (op 19: count + position-sensitive checksum; the oracle checks count and an order-insensitive sum) while the model statement only says `map snd l = hm_abs m` (controls uncharacterised). Also exercised: ipairs/mipairs/pairs/mpairs, mnext walks over vector, sequence and list (reference identity checked), next over hashmap, select; mnext over hashmap (reference identity checked). select is a definitional model (C12_select_returns_suffix); its defect (one value returned) was repaired in /repo 6bf5a38 and the witness is replayed on every run",
    "hashmap: the model runs with a hash on value tokens while the implementation hashes the real values; this is covered by C12_hashmap_is_flat_map / C12_hashmap_hash_independent_exact (every hash that respects == gives identical results, order, capacity and bucket count) TOGETHER WITH the coherence of the real hashes, which is proved only for integer, boolean, float64 (+-0, NaN), record{integer,number}, arrays/spans/pointers/unions as functions of the compared bytes; strings (== on the bytes, hash.long over the bytes) and float32 are covered by C12_hash_coherent_string_float32; other record shapes are not covered",
    "hashmap: the distinguished Overflow outcome (roundpow2 wrapped in usize; the implementation would continue with a zero-sized table) is excluded by theorem only below 2^50 bindings/requested counts (C12_hashmap_no_overflow_below_2p50); at or above that the model says Overflow and nothing is claimed about the code",
    "hashmap next(m,k)/__next is not an operation of the step relation hop, deliberately: it is the only hashmap operation with a failing precondition (absent key), and the step / history / flat-map theorems have the two-outcome shape `Overflow or the specification's result`; admitting it would add a third outcome to every one of those statements. It is covered on its own by C12_hashmap_next_is_flat_and_refines_map (equal to the hash-free flat next; absent key stopped; returned bindings are bindings of the map) and C12_hashmap_next_follows_iteration_order, so histories that interleave next with other operations are covered only operation by operation",
    "allocation failure: theorems are about the model with an allocation oracle (refused request = panic before any change); that the library's x-allocators panic is checked by the driver with a refusing allocator, not proved; the gc/general allocators themselves are C11's subject; counts whose byte size overflows (Allocator span operations, /repo 942989e) are outside the model (sizes are exact naturals)",
    "stringbuilder: histories are covered under the static protocol condition sb_op_ok (the client writes at most the n bytes it asked prepare for), a sufficient condition for the state-dependent one of the step theorem (at most the span prepare returned); write of integer/boolean arguments is modelled as write of the rendered bytes (the rendering, strconv.int2str, is C14's theorem in another sub-project: here driver and oracle render and the correspondence compares); float arguments (num2str), writef/formatarg (string.format) and __tostring are not modelled",
    "list __convert (needs a fixed-size array literal) is not exercised; vector/sequence __convert is exercised through conversion from a span; __close is exercised at harness level only (a scoped to-be-closed container, also under the sanitizer build), in the model it is destroy",
    "hash.hash of records with a user __hash: the model takes the user function as a parameter (coherent iff the user's method respects the user's ==), nothing to correspond; nested aggregates are covered by composition of the proved pieces but only arrays of integers/floats, span(integer), an 8-byte union and pointers are exercised",
    "span: span.as (reinterpretation as another element type) and __convert from strings/arrays are not modelled; the window theorem is about one storage block seen as a list",
]
