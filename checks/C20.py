"""C20 - the bundled hash module conforms to its specification (BLAKE2b = RFC 7693, Base58 = Bitcoin alphabet,
encode/decode exact inverses within their documented limits).

(T) iv[8], sigma[12][16], the G schedule and rotation constants, the parameter-block constant, block size, the Base58
    alphabet/map tables, the two MAXLENs and the 138/100 size factor are scraped from src/hasher.c into coq/C20/Gen.v;
    `tables_are_rfc` / `b58_tables_are_bitcoin` (vm_compute) compare them with hand-written RFC/Bitcoin constants.
(C) `require 'hasher'` (and nelua.utils.stringer) under the interpreter rebuilt from REPO/src vs the extracted model on one
    case file; property oracle = Python hashlib.blake2b + a bignum Base58 reference."""
import hashlib
import os
import re
import vlib

ID = "C20"
CLAIM = True
MANIFEST_ENTRY = {
    "text": "proof, partial: THEOREMS (Coq, closed under the global context) - the model of hasher.c's blake2b init/update/final (word "
            "buffering, byte-alignment loop, lazy end-of-block compression, t0/t1 counter carry incl. beyond 2^64, key block, partial-word "
            "output) equals the hand-transcribed RFC 7693 function for every message (no length bound), every chunking, digest length 1..64, "
            "key 0..64 bytes; the models of base58_encode/base58_decode equal the positional Bitcoin-alphabet specification for inputs up to "
            "256/360 bytes, reject exactly non-alphabet bytes, and are mutual inverses within those limits; stringer.hash = Base58(BLAKE2b) for "
            "every digest length used at the compiler's call sites; the Lua entry point refuses every digest length outside 1..64 and every "
            "key longer than 64 bytes (since repair ede4fb9); the scraped tables/constants are the RFC's and Bitcoin's.  BY "
            "CORRESPONDENCE/TESTING ONLY: that the hand-written model is the C code (regenerated tables + differential runs of the real module, "
            "of a C harness that #includes src/hasher.c under ASan/UBSan, against hashlib and an independent Python RFC/Base58 reference); "
            "'stable across platforms' beyond LP64; nothing about collision resistance / distinctness of names",
    "note": "trusted: Coq 8.16.1 kernel; hand transcription of RFC 7693 and the Bitcoin alphabet in coq/C20/Spec.v (validated by RFC appendix A / "
            "reference KAT Examples and on every run against hashlib and a pure-Python RFC implementation); the hand-written model (tie = "
            "scraped iv/sigma/G schedule/rotations/parameter block/limits/Base58 tables/masks/pad char/shift tables + correspondence, which is "
            "testing); size_t = 64 bits, int = 32 bits; extraction with ExtrOcamlBasic; OCaml/Lua/C/Python glue; no cross-property file dependencies",
    "technique": "machine-checked proof in Coq over an executable model + regenerated parameters + extracted-model/implementation correspondence",
}
THEOREM_CLASSES = {
    "C20_tables_are_rfc": "tripwire",                 # scraped = hand-written RFC constants; consumed by the main proofs
    "C20_compress_is_rfc_F": "main",
    "C20_blake2b_conforms": "main",
    "C20_lblake2b_conforms": "corollary",
    "C20_lblake2b_rejects": "corollary",              # full statement since ede4fb9 (depends on the scraped `lua_Integer digln`)
    "C20_lblake2b_default": "corollary",
    "C20_digest_length": "corollary",
    "C20_blake2b_streaming": "main",
    "C20_blake2b_counter_carry": "main",
    "C20_b58_tables_are_bitcoin": "tripwire",
    "C20_b58_size_estimate": "corollary",             # arithmetic fact about the scraped 138/100, 256, 360
    "C20_base58_encode_conforms": "main",
    "C20_base58_encode_toolong": "corollary",
    "C20_base58_decode_conforms": "main",
    "C20_base58_decode_rejects": "corollary",
    "C20_base58_decode_toolong": "corollary",
    "C20_base58_decode_encode": "main",
    "C20_base58_encode_decode": "main",
    "C20_base58_spec_inverse": "main",                # about the specification itself (a bijection), not about the code
    "C20_stringer_hash": "corollary",
    "C20_stringer_hash_callsites": "corollary",
}
UNPROVED = [
    "model = C code is not a theorem: the tie is the regenerated tables/constants (T) plus the correspondence (C) of the real module and of a C "
    "harness that #includes src/hasher.c, under ASan/UBSan, against two independent references",
    "loop structures of hasher.c are mirrored by hand (upd_align/upd_words/remainder, base58 carry loops, switch(bytesleft)); only their constants are scraped",
    "the carry of blake2b_incr into input_offset[1] and the byte-alignment loop of blake2b_update are unreachable from the Lua API; they are exercised "
    "only through harness/C20/stream.c (counter preset near 2^64 and 2^128, unaligned chunkings)",
    "'stable across platforms': proved for size_t = 64 bits / int = 32 bits only (ASSUMPTIONS); 32-bit size_t changes blake2b_incr's carry test",
    "'distinct names and cache keys': no injectivity/collision statement is made (not provable)",
    "C20_compress_is_rfc_F quantifies over message-word lists of any length (both sides read missing words as 0); blake2b_impl only ever passes 16 words (proved)",
]
ALLOWED_AXIOMS = []
TRUSTED_BASE = [
    "coqc 8.16.1 kernel (vm_compute used for table comparisons, RFC test vectors and parameter facts; no native_compute)",
    "no axioms: every theorem of coq/C20/Properties.v is 'Closed under the global context'",
    "RFC 7693 and the Bitcoin Base58 alphabet as transcribed by hand in coq/C20/Spec.v (validated by the RFC appendix A / keyed test vectors as Examples and against Python hashlib on every run)",
    "translator checks/C20.py:gen (regex scrape of iv, sigma, BLAKE2_G macro rotations and call schedule, 0x01010000, block size, b58 tables, MAXLENs, size factor from src/hasher.c)",
    "extraction: Require Extraction + ExtrOcamlBasic only; Z/positive/nat stay Coq inductives; no Extract Constant of our own",
    "harness/C20/stream.c (#includes REPO/src/hasher.c; drives the static blake2b_init/update/final with preset counters and arbitrary chunkings, "
    "and base58_encode/decode exactly as the Lua wrappers do; built with ASan+UBSan on every run), the pure-Python RFC 7693 in checks/C20.py (py_blake2b_from)",
    "ocaml/zutil.ml + coq/C20/driver.ml, harness/C20/ops.lua (calls require 'hasher' and nelua.utils.stringer), OCaml 4.13.1, gcc (interpreter rebuilt from REPO/src), Python hashlib.blake2b (third oracle)",
    "modelled rather than verified: hasher.c is mirrored by hand in coq/C20/Model.v (Base58 digit/limb buffers are kept least-significant-first, i.e. index-mirrored w.r.t. the C arrays); the tie is the correspondence run on every check",
]
ASSUMPTIONS = [
    "C unsigned 64/32-bit arithmetic as written in coq/C20/Model.v (explicit truncation to 64 bits; size_t = 64 bits)",
    "the RFC counter t is reduced mod 2^128 in the spec (RFC 7693 only defines inputs shorter than 2^128 bytes)",
    "correspondence is differential testing over boundary-dense lengths x digest sizes x key sizes, not a proof that model = code",
]


# ----------------------------------------------------------------------------------------------
# (T) translator
# ----------------------------------------------------------------------------------------------

def _ints(txt):
    return [int(x, 0) for x in re.findall(r"-?(?:0x[0-9a-fA-F]+|\d+)", txt)]


def scrape(src):
    out = {}
    m = re.search(r"static\s+const\s+uint64_t\s+iv\[(\d+)\]\s*=\s*\{(.*?)\};", src, re.S)
    if not m:
        raise RuntimeError("cannot find iv[] in hasher.c")
    out["iv"] = _ints(m.group(2))
    if len(out["iv"]) != int(m.group(1)):
        raise RuntimeError("iv[] has %d entries, declared %s" % (len(out["iv"]), m.group(1)))
    m = re.search(r"static\s+const\s+uint8_t\s+sigma\[(\d+)\]\[(\d+)\]\s*=\s*\{(.*?)\};", src, re.S)
    if not m:
        raise RuntimeError("cannot find sigma[][] in hasher.c")
    rows = re.findall(r"\{([^{}]*)\}", m.group(3))
    out["sigma"] = [_ints(r) for r in rows]
    if len(out["sigma"]) != int(m.group(1)) or any(len(r) != int(m.group(2)) for r in out["sigma"]):
        raise RuntimeError("sigma[][] shape does not match its declaration")
    m = re.search(r"for\s*\(i\s*=\s*0;\s*i\s*<\s*(\d+);\s*i\+\+\)\s*\{\s*#define\s+BLAKE2_G", src)
    if not m:
        raise RuntimeError("cannot find the round loop in blake2b_compress")
    out["rounds"] = int(m.group(1))
    m = re.search(r"#define\s+BLAKE2_G\(v, a, b, c, d, x, y\)(.*?)\n\s*\n", src, re.S)
    if not m:
        raise RuntimeError("cannot find the BLAKE2_G macro")
    body = re.sub(r"\\\n", " ", m.group(1))
    body = re.sub(r"\s+", " ", body).strip().rstrip("\\").strip()
    mm = re.fullmatch(
        r"v\[a\] \+= v\[b\] \+ x; v\[d\] = rotr64\(v\[d\] \^ v\[a\], (\d+)\); "
        r"v\[c\] \+= v\[d\]; v\[b\] = rotr64\(v\[b\] \^ v\[c\], (\d+)\); "
        r"v\[a\] \+= v\[b\] \+ y; v\[d\] = rotr64\(v\[d\] \^ v\[a\], (\d+)\); "
        r"v\[c\] \+= v\[d\]; v\[b\] = rotr64\(v\[b\] \^ v\[c\], (\d+)\);", body)
    if not mm:
        raise RuntimeError("BLAKE2_G macro has an unexpected shape: %r" % body)
    out["rot"] = [int(x) for x in mm.groups()]
    calls = re.findall(r"BLAKE2_G\(v,\s*(\d+),\s*(\d+),\s*(\d+),\s*(\d+),\s*input\[sigma\[i\]\[\s*(\d+)\]\],\s*input\[sigma\[i\]\[\s*(\d+)\]\]\);", src)
    if not calls:
        raise RuntimeError("cannot find the BLAKE2_G calls")
    out["gsched"] = [[int(x) for x in c] for c in calls]
    m = re.search(r"ctx->hash\[0\]\s*\^=\s*(0x[0-9a-fA-F]+)\s*\^\s*\(key_size\s*<<\s*(\d+)\)\s*\^\s*hash_size;", src)
    if not m:
        raise RuntimeError("cannot find the parameter block xor in blake2b_init")
    out["param"] = int(m.group(1), 16)
    out["keyshift"] = int(m.group(2))
    m = re.search(r"if\s*\(ctx->input_idx\s*==\s*(\d+)\)", src)
    if not m:
        raise RuntimeError("cannot find the block-full test in blake2b_end_block")
    out["blockbytes"] = int(m.group(1))
    m = re.search(r"blake2b_update\(ctx, key, key_size\);\s*ctx->input_idx\s*=\s*(\d+);", src)
    if not m:
        raise RuntimeError("cannot find the key block padding in blake2b_init")
    out["keyblock"] = int(m.group(1))
    m = re.search(r"uint64_t\s+input\[(\d+)\];", src)
    if not m:
        raise RuntimeError("cannot find input[] in blake2b_ctx")
    out["inputwords"] = int(m.group(1))
    m = re.search(r"if\(keyln > (\d+)\)", src)
    m2 = re.search(r"if\(digln < (\d+) \|\| digln > (\d+)\)", src)
    if not m or not m2:
        raise RuntimeError("cannot find the key/digest size checks of lblake2b")
    out["maxkey"] = int(m.group(1))
    out["mindig"] = int(m2.group(1))
    out["maxdig"] = int(m2.group(2))
    # Base58
    m = re.search(r"#define\s+BASE58_ENCODE_MAXLEN\s+(\d+)", src)
    m2 = re.search(r"#define\s+BASE58_DECODE_MAXLEN\s+(\d+)", src)
    if not m or not m2:
        raise RuntimeError("cannot find the BASE58 MAXLEN defines")
    out["enc_maxlen"] = int(m.group(1))
    out["dec_maxlen"] = int(m2.group(1))
    m = re.search(r"static\s+const\s+int8_t\s+b58digits_map\[\]\s*=\s*\{(.*?)\};", src, re.S)
    if not m:
        raise RuntimeError("cannot find b58digits_map")
    out["b58map"] = _ints(m.group(1))
    m = re.search(r'static\s+const\s+char\s+b58digits_ordered\[\]\s*=\s*"([^"\\]*)";', src)
    if not m:
        raise RuntimeError("cannot find b58digits_ordered")
    out["alphabet"] = m.group(1)
    m = re.search(r"size\s*=\s*\(binsz\s*-\s*zcount\)\s*\*\s*(\d+)\s*/\s*(\d+)\s*\+\s*1;", src)
    if not m:
        raise RuntimeError("cannot find the size estimate of base58_encode")
    out["size_num"] = int(m.group(1))
    out["size_den"] = int(m.group(2))
    m = re.search(r"carry \+= (\d+) \* buf\[j\];\s*buf\[j\] = carry % (\d+);\s*carry /= (\d+);", src)
    if not m:
        raise RuntimeError("cannot find the carry loop of base58_encode")
    out["enc_mul"] = int(m.group(1))
    out["enc_base"] = int(m.group(2))
    if int(m.group(3)) != out["enc_base"]:
        raise RuntimeError("base58_encode: carry %% %s but carry /= %s" % (m.group(2), m.group(3)))
    # structural constants of the byte/word plumbing (tripwires: the model keeps them literal, the tables theorem pins them)
    m = re.search(r"memset\(b58, '(.)', zcount\);", src)
    m2 = re.search(r"b58u\[i\] == '(.)'; \+\+i\)", src)
    m3 = re.search(r"if \(b58u\[i\] & (0x[0-9a-fA-F]+)\)", src)
    if not (m and m2 and m3):
        raise RuntimeError("cannot find the Base58 pad character / high-bit test")
    out["b58_pad_enc"] = ord(m.group(1))
    out["b58_pad_dec"] = ord(m2.group(1))
    out["b58_highbit"] = int(m3.group(1), 16)
    m = re.search(r"static uint64_t load64_le\(const uint8_t s\[8\]\)\s*\{(.*?)\}", src, re.S)
    if not m:
        raise RuntimeError("cannot find load64_le")
    body = re.sub(r"\s+", " ", m.group(1))
    terms = re.findall(r"\(?\(uint64_t\)s\[(\d)\](?: << *(\d+)\))?", body)
    if [int(i) for i, _ in terms] != list(range(8)) or body.count("|") != 7:
        raise RuntimeError("load64_le has an unexpected shape: %r" % body)
    out["load64_shifts"] = [int(sh or 0) for _, sh in terms]
    m = re.search(r"static void store64_le\(uint8_t out\[8\], uint64_t in\)\s*\{(.*?)\}", src, re.S)
    if not m:
        raise RuntimeError("cannot find store64_le")
    st = re.findall(r"out\[(\d)\]\s*=\s*\(?in(?:\s*>>\s*(\d+)\))?\s*&\s*(0x[0-9a-fA-F]+);", m.group(1))
    if [int(i) for i, _, _ in st] != list(range(8)):
        raise RuntimeError("store64_le has an unexpected shape")
    out["store64_shifts"] = [int(sh or 0) for _, sh, _ in st]
    out["store64_masks"] = sorted({int(mk, 16) for _, _, mk in st})
    m = re.search(r"static uint64_t rotr64\(uint64_t x, uint64_t n\) \{ return \(x >> n\) \^ \(x << \((\d+) - n\)\); \}", src)
    if not m:
        raise RuntimeError("cannot find rotr64")
    out["rotr_width"] = int(m.group(1))
    m = re.search(r"(int|lua_Integer|long long|int64_t|ptrdiff_t)\s+digln;", src)
    m2 = re.search(r"digln = (?:\([a-zA-Z_ ]+\))?luaL_optinteger\(L, 2, (\d+)\);", src)
    if not (m and m2):
        raise RuntimeError("cannot find the declaration / default of digln in lblake2b")
    out["digln_is_c_int"] = (m.group(1) == "int")
    out["default_dig"] = int(m2.group(1))
    m = re.search(r"t = \(\(uint64_t\)outi\[j\]\) \* (\d+) \+ c;\s*c = \(t & (0x[0-9a-fA-F]+)\) >> (\d+);\s*outi\[j\] = t & (0x[0-9a-fA-F]+);", src)
    if not m:
        raise RuntimeError("cannot find the limb loop of base58_decode")
    out["dec_base"] = int(m.group(1))
    out["dec_carrymask"] = int(m.group(2), 16)
    out["dec_carryshift"] = int(m.group(3))
    out["dec_limbmask"] = int(m.group(4), 16)
    return out


def scrape_stringer():
    """stringer.hash: default digest length and the call sites in lualib/nelua (second/third argument as written)."""
    st = vlib.repo_read("lualib/nelua/utils/stringer.lua")
    m = re.search(r"function stringer\.hash\(s, len, key\)\s*len = len or (\d+)\s*local hash = hasher\.blake2b\(s, len, key\)\s*return hasher\.base58encode\(hash\)", st)
    if not m:
        raise RuntimeError("stringer.hash no longer has the shape base58encode(blake2b(s, len or <n>, key))")
    default = int(m.group(1))
    sites = []
    root = os.path.join(vlib.REPO, "lualib", "nelua")
    for d, _, fs in sorted(os.walk(root)):
        for f in sorted(fs):
            if not f.endswith(".lua") or f == "stringer.lua":
                continue
            txt = vlib.read(os.path.join(d, f))
            for mm in re.finditer(r"stringer\.hash\(", txt):
                depth, j = 1, mm.end()
                while j < len(txt) and depth:
                    depth += {"(": 1, ")": -1}.get(txt[j], 0)
                    j += 1
                args = txt[mm.end():j - 1]
                parts, dp, cur = [], 0, ""
                for ch in args:
                    if ch in "([{":
                        dp += 1
                    elif ch in ")]}":
                        dp -= 1
                    if ch == "," and dp == 0:
                        parts.append(cur.strip())
                        cur = ""
                    else:
                        cur += ch
                parts.append(cur.strip())
                ln = txt.count("\n", 0, mm.start()) + 1
                sites.append({"where": "%s:%d" % (os.path.relpath(os.path.join(d, f), vlib.REPO), ln),
                              "len": None if len(parts) < 2 else (int(parts[1]) if re.fullmatch(r"\d+", parts[1]) else parts[1]),
                              "key": None if len(parts) < 3 else parts[2]})
    if not sites:
        raise RuntimeError("no stringer.hash call site found in lualib/nelua")
    return {"default": default, "sites": sites}


def zl(xs):
    return "[" + "; ".join(("(%d)" % x) if x < 0 else str(x) for x in xs) + "]"


def gen(ctx):
    src = vlib.repo_read("src/hasher.c")
    s = scrape(src)
    L = ["(* GENERATED by checks/C20.py from REPO/src/hasher.c - do not edit *)",
         "From Coq Require Import ZArith List.", "Import ListNotations.", "Local Open Scope Z_scope.", ""]
    L.append("Definition IV_C : list Z := %s." % zl(s["iv"]))
    L.append("Definition SIGMA_C : list (list nat) := [\n  %s]." %
             ";\n  ".join("[" + "; ".join("%d%%nat" % x for x in r) + "]" for r in s["sigma"]))
    L.append("Definition ROUNDS_C : nat := %d%%nat." % s["rounds"])
    L.append("Definition ROT_C : Z * Z * Z * Z := (%d, %d, %d, %d)." % tuple(s["rot"]))
    L.append("Definition GSCHED_C : list (nat * nat * nat * nat * nat * nat) := [\n  %s]." %
             ";\n  ".join("(" + ", ".join("%d%%nat" % x for x in c) + ")" for c in s["gsched"]))
    L.append("Definition PARAM_C : Z := %d." % s["param"])
    L.append("Definition KEYSHIFT_C : Z := %d." % s["keyshift"])
    L.append("Definition BLOCKBYTES_C : Z := %d." % s["blockbytes"])
    L.append("Definition KEYBLOCK_C : Z := %d." % s["keyblock"])
    L.append("Definition INPUTWORDS_C : nat := %d%%nat." % s["inputwords"])
    L.append("Definition MAXKEY_C : Z := %d." % s["maxkey"])
    L.append("Definition MINDIG_C : Z := %d." % s["mindig"])
    L.append("Definition MAXDIG_C : Z := %d." % s["maxdig"])
    L.append("Definition B58_ENCODE_MAXLEN : Z := %d." % s["enc_maxlen"])
    L.append("Definition B58_DECODE_MAXLEN : Z := %d." % s["dec_maxlen"])
    L.append("Definition B58_MAP_C : list Z := %s." % zl(s["b58map"]))
    L.append("Definition B58_ALPHABET_C : list Z := %s." % zl([ord(c) for c in s["alphabet"]]))
    L.append("Definition B58_SIZE_NUM : Z := %d." % s["size_num"])
    L.append("Definition B58_SIZE_DEN : Z := %d." % s["size_den"])
    L.append("Definition B58_ENC_MUL : Z := %d." % s["enc_mul"])
    L.append("Definition B58_ENC_BASE : Z := %d." % s["enc_base"])
    L.append("Definition B58_DEC_BASE : Z := %d." % s["dec_base"])
    L.append("Definition B58_DEC_CARRYMASK : Z := %d." % s["dec_carrymask"])
    L.append("Definition B58_DEC_CARRYSHIFT : Z := %d." % s["dec_carryshift"])
    L.append("Definition B58_DEC_LIMBMASK : Z := %d." % s["dec_limbmask"])
    L.append("Definition B58_PAD_ENC_C : Z := %d." % s["b58_pad_enc"])
    L.append("Definition B58_PAD_DEC_C : Z := %d." % s["b58_pad_dec"])
    L.append("Definition B58_HIGHBIT_C : Z := %d." % s["b58_highbit"])
    L.append("Definition LOAD64_SHIFTS_C : list Z := %s." % zl(s["load64_shifts"]))
    L.append("Definition STORE64_SHIFTS_C : list Z := %s." % zl(s["store64_shifts"]))
    L.append("Definition STORE64_MASKS_C : list Z := %s." % zl(s["store64_masks"]))
    L.append("Definition ROTR_WIDTH_C : Z := %d." % s["rotr_width"])
    L.append("Definition DIGLN_IS_C_INT : bool := %s." % ("true" if s["digln_is_c_int"] else "false"))
    L.append("Definition DEFAULT_DIG_C : Z := %d." % s["default_dig"])
    stg = scrape_stringer()
    sites = stg["sites"]
    s["stringer_default_len"] = stg["default"]
    s["stringer_call_sites"] = sites
    lens = sorted({(x["len"] if x["len"] is not None else s["stringer_default_len"]) for x in sites if x["len"] is None or isinstance(x["len"], int)})
    s["stringer_literal_lens"] = lens
    s["stringer_dynamic_sites"] = [x["where"] for x in sites if not (x["len"] is None or isinstance(x["len"], int)) or x["key"] is not None]
    L.append("Definition STRINGER_DEFAULT_LEN : Z := %d." % s["stringer_default_len"])
    L.append("Definition STRINGER_CALLSITE_LENS : list Z := %s." % zl(lens))
    vlib.write_if_changed(os.path.join(vlib.coq_dir(ID), "Gen.v"), "\n".join(L) + "\n")
    rep = dict(s)
    rep["iv"] = ["%016x" % x for x in s["iv"]]
    return rep


# ----------------------------------------------------------------------------------------------
# property oracle (the theorems' right-hand side): RFC 7693 via hashlib, positional Base58
# ----------------------------------------------------------------------------------------------

ALPHABET = "123456789ABCDEFGHJKLMNPQRSTUVWXYZabcdefghijkmnopqrstuvwxyz"   # Bitcoin alphabet, written by hand
ENC_MAX = 256     # documented limits (hasher.c comments: "#str <= 256")
DEC_MAX = 360


def hx(b):
    return b.hex() if b else "-"


def unhx(s):
    return b"" if s == "-" else bytes.fromhex(s)


def ref_b58enc(x):
    z = len(x) - len(x.lstrip(b"\0"))
    v = int.from_bytes(x[z:], "big")
    ds = ""
    while v > 0:
        v, r = divmod(v, 58)
        ds = ALPHABET[r] + ds
    return ("1" * z + ds).encode()


def ref_b58dec(s):
    try:
        t = s.decode("ascii")
    except UnicodeDecodeError:
        return None
    if any(c not in ALPHABET for c in t):
        return None
    z = len(t) - len(t.lstrip("1"))
    v = 0
    for c in t[z:]:
        v = v * 58 + ALPHABET.index(c)
    return b"\0" * z + (v.to_bytes((v.bit_length() + 7) // 8, "big") if v else b"")


_IV = [0x6a09e667f3bcc908, 0xbb67ae8584caa73b, 0x3c6ef372fe94f82b, 0xa54ff53a5f1d36f1,
       0x510e527fade682d1, 0x9b05688c2b3e6c1f, 0x1f83d9abfb41bd6b, 0x5be0cd19137e2179]
_SIGMA = [[0, 1, 2, 3, 4, 5, 6, 7, 8, 9, 10, 11, 12, 13, 14, 15], [14, 10, 4, 8, 9, 15, 13, 6, 1, 12, 0, 2, 11, 7, 5, 3],
          [11, 8, 12, 0, 5, 2, 15, 13, 10, 14, 3, 6, 7, 1, 9, 4], [7, 9, 3, 1, 13, 12, 11, 14, 2, 6, 5, 10, 4, 0, 15, 8],
          [9, 0, 5, 7, 2, 4, 10, 15, 14, 1, 11, 12, 6, 8, 3, 13], [2, 12, 6, 10, 0, 11, 8, 3, 4, 13, 7, 5, 15, 14, 1, 9],
          [12, 5, 1, 15, 14, 13, 4, 10, 0, 7, 6, 3, 9, 2, 8, 11], [13, 11, 7, 14, 12, 1, 3, 9, 5, 0, 15, 4, 8, 6, 2, 10],
          [6, 15, 14, 9, 11, 3, 0, 8, 12, 2, 13, 7, 1, 4, 10, 5], [10, 2, 8, 4, 7, 6, 1, 5, 15, 11, 9, 14, 3, 12, 13, 0]]
_M64 = (1 << 64) - 1


def _py_F(h, block, t, last):
    m = [int.from_bytes(block[8 * i:8 * i + 8], "little") for i in range(16)]
    v = h[:] + _IV[:]
    v[12] ^= t & _M64
    v[13] ^= (t >> 64) & _M64
    if last:
        v[14] ^= _M64

    def rotr(x, n):
        return ((x >> n) | (x << (64 - n))) & _M64

    def G(a, b, c, d, x, y):
        v[a] = (v[a] + v[b] + x) & _M64; v[d] = rotr(v[d] ^ v[a], 32)
        v[c] = (v[c] + v[d]) & _M64; v[b] = rotr(v[b] ^ v[c], 24)
        v[a] = (v[a] + v[b] + y) & _M64; v[d] = rotr(v[d] ^ v[a], 16)
        v[c] = (v[c] + v[d]) & _M64; v[b] = rotr(v[b] ^ v[c], 63)
    for r in range(12):
        s_ = _SIGMA[r % 10]
        G(0, 4, 8, 12, m[s_[0]], m[s_[1]]); G(1, 5, 9, 13, m[s_[2]], m[s_[3]])
        G(2, 6, 10, 14, m[s_[4]], m[s_[5]]); G(3, 7, 11, 15, m[s_[6]], m[s_[7]])
        G(0, 5, 10, 15, m[s_[8]], m[s_[9]]); G(1, 6, 11, 12, m[s_[10]], m[s_[11]])
        G(2, 7, 8, 13, m[s_[12]], m[s_[13]]); G(3, 4, 9, 14, m[s_[14]], m[s_[15]])
    return [h[i] ^ v[i] ^ v[i + 8] for i in range(8)]


def py_blake2b_from(i, outlen, key, msg):
    """RFC 7693 BLAKE2b written independently of hashlib, with the block loop entered at block index i (counter i*128):
    i = 0 is the RFC function (cross-checked against hashlib on every run)."""
    h = _IV[:]
    h[0] ^= 0x01010000 ^ (len(key) << 8) ^ outlen
    data = (key + bytes(128 - len(key)) if key else b"") + msg
    nblocks = max(1, (len(data) + 127) // 128)
    t = i * 128
    for b in range(nblocks - 1):
        t += 128
        h = _py_F(h, data[128 * b:128 * b + 128], t, False)
    lastb = data[128 * (nblocks - 1):]
    t += len(lastb)
    h = _py_F(h, lastb + bytes(128 - len(lastb)), t, True)
    return b"".join(x.to_bytes(8, "little") for x in h)[:outlen]


def oracle(case):
    """Expected result line for a case, or None when the property says nothing about it
    (then only model-vs-implementation is compared)."""
    op = case[0]
    if op == "b":
        return "ok " + hx(hashlib.blake2b(case[1]).digest())              # documented default: 64 bytes, no key
    if op == "K":
        return oracle(("B", case[1], b"", case[2]))                        # key = "" is "no key"
    if op == "S":
        _, dig, key, t, chunks = case
        return "ok " + hx(py_blake2b_from(t // 128, dig, key, b"".join(chunks)))
    if op == "F":
        _, i, dig, key, msg = case
        return "ok " + hx(py_blake2b_from(i, dig, key, msg))
    if op in ("B", "R", "H"):
        _, dig, key, msg = case
        if len(key) > 64:
            return "err bad key size" if op != "R" else None
        if not (1 <= dig <= 64):
            # documented: "digln between 1 and 64": every other value must be refused (C20 lblake2b_rejects_full)
            return "err bad digest size" if op != "R" else None
        d = hashlib.blake2b(msg, digest_size=dig, key=key).digest()
        if op == "H":
            return "ok " + hx(ref_b58enc(d))
        return "ok " + hx(d)
    if op == "h":
        return "ok " + hx(ref_b58enc(hashlib.blake2b(case[1], digest_size=20).digest()))   # documented default: 20 bytes
    if op in ("E", "e"):
        x = case[1]
        if len(x) > ENC_MAX:
            return "err string too long" if op == "E" else "ok " + hx(ref_b58enc(x))
        return "ok " + hx(ref_b58enc(x))
    if op in ("D", "d"):
        s = case[1]
        if len(s) > DEC_MAX and op == "D":
            return "err string too long"
        r = ref_b58dec(s)
        if r is None:
            return "err b58decode error" if op == "D" else "err invalid"
        return "ok " + hx(r)
    raise KeyError(op)


def fmt(case):
    op = case[0]
    if op == "S":
        return "S %d %s %x %x %s" % (case[1], hx(case[2]), case[3] & _M64, (case[3] >> 64) & _M64, " ".join(hx(c) for c in case[4]))
    if op == "F":
        return "F %x %d %s %s" % (case[1], case[2], hx(case[3]), hx(case[4]))
    if op == "K":
        return "K %d %s" % (case[1], hx(case[2]))
    if op in ("B", "R", "H"):
        return "%s %d %s %s" % (op, case[1], hx(case[2]), hx(case[3]))
    return "%s %s" % (op, hx(case[1]))


def parse(line):
    w = line.split()
    if w[0] == "S":
        return ("S", int(w[1]), unhx(w[2]), int(w[3], 16) | (int(w[4], 16) << 64), [unhx(x) for x in w[5:]])
    if w[0] == "F":
        return ("F", int(w[1], 16), int(w[2]), unhx(w[3]), unhx(w[4]))
    if w[0] == "K":
        return ("K", int(w[1]), unhx(w[2]))
    if w[0] in ("B", "R", "H"):
        return (w[0], int(w[1]), unhx(w[2]), unhx(w[3]))
    return (w[0], unhx(w[1]))


# ----------------------------------------------------------------------------------------------
# generators
# ----------------------------------------------------------------------------------------------

BOUNDARY = [0, 1, 7, 8, 9, 127, 128, 129, 255, 256, 257]
KEYLENS = [0, 1, 31, 32, 63, 64]


def rbytes(rng, n, kind=None):
    kind = kind or rng.choice(["rand", "rand", "rand", "zero", "ff", "inc", "sparse"])
    if kind == "zero":
        return bytes(n)
    if kind == "ff":
        return b"\xff" * n
    if kind == "inc":
        return bytes(i & 255 for i in range(n))
    if kind == "sparse":
        b = bytearray(n)
        if n:
            b[rng.randrange(n)] = rng.randrange(1, 256)
        return bytes(b)
    return rng.randbytes(n) if hasattr(rng, "randbytes") else bytes(rng.getrandbits(8) for _ in range(n))


def gen_cases(ctx):
    rng = ctx.rng
    cases = []
    dist = {}

    def add(stream, case):
        cases.append((stream, case))
        dist[stream] = dist.get(stream, 0) + 1

    dense = sorted({max(0, b + d) for b in BOUNDARY for d in (-2, -1, 0, 1, 2)} | {383, 384, 385, 511, 512, 513, 519, 520})
    # (1) RFC 7693 appendix A and the keyed vector of the reference implementation's KAT (key = 00..3f, msg = 00..)
    add("kat", ("B", 64, b"", b"abc"))
    add("kat", ("R", 64, b"", b"abc"))
    for n in (0, 1, 128, 255):
        add("kat", ("B", 64, bytes(range(64)), bytes(i & 255 for i in range(n))))
        add("kat", ("R", 64, bytes(range(64)), bytes(i & 255 for i in range(n))))
    if ctx.thorough:
        # (2t) full cross product lengths 0..520 x outlen 1..64 x key lengths
        for n in range(0, 521):
            for dig in range(1, 65):
                for kl in KEYLENS:
                    add("cross", ("B", dig, rbytes(rng, kl, "rand"), rbytes(rng, n)))
    else:
        # (2q) every length 0..520 once; dense lengths x key lengths x boundary digest sizes; every digest size x key lengths
        for n in range(0, 521):
            add("lengths", ("B", rng.randint(1, 64), rbytes(rng, rng.choice(KEYLENS), "rand"), rbytes(rng, n)))
        for n in dense:
            for kl in KEYLENS:
                for dig in rng.sample([1, 7, 8, 9, 20, 31, 32, 33, 63, 64], 3):
                    add("dense", ("B", dig, rbytes(rng, kl, "rand"), rbytes(rng, n)))
        for dig in range(1, 65):
            for kl in KEYLENS:
                add("digests", ("B", dig, rbytes(rng, kl, "rand"), rbytes(rng, rng.choice([0, 1, 3, 128, 129]))))
    # (3) the Coq transcription of the RFC itself against hashlib (validates the spec side of the theorem)
    for _ in range(ctx.scale(120, 3000)):
        add("rfc-spec", ("R", rng.randint(1, 64), rbytes(rng, rng.choice(KEYLENS + [rng.randint(0, 64)]), "rand"),
                         rbytes(rng, rng.choice(dense + [rng.randint(0, 520)]))))
    # (4) argument checks of the Lua entry point
    for dig in (0, -1, 65, 66, 2**31 - 1, -2**31, 2**32 + 5, 2**32, -(2**32) + 64, 2**40 + 64):
        add("args", ("B", dig, b"", b"x"))
    for kl in (65, 66, 128, 129):
        add("args", ("B", 32, bytes(kl), b"x"))
    # (4b) default-argument paths of the Lua entry point: hasher.blake2b(m) and key = "" (not nil)
    for _ in range(ctx.scale(40, 600)):
        add("defaults", ("b", rbytes(rng, rng.choice(dense + [rng.randint(0, 300)]))))
        add("defaults", ("K", rng.randint(1, 64), rbytes(rng, rng.choice(dense))))
    add("defaults", ("K", 0, b"x"))
    add("defaults", ("K", 65, b"x"))
    # (4c) C harness that #includes REPO/src/hasher.c (harness/C20/stream.c): incremental updates with chunkings that enter
    #      the byte-alignment loop (chunk lengths not multiples of 8, so later chunks start unaligned), and counters whose low
    #      word wraps while hashing (t0 near 2^64: the carry into t1), also with t1 already at 2^64-1
    def chunking(total):
        out_, left = [], total
        while left > 0:
            n = min(left, rng.choice([1, 2, 3, 5, 7, 8, 9, 13, 63, 64, 65, 127, 128, 129, rng.randint(1, 200)]))
            out_.append(n); left -= n
        if rng.random() < 0.3:
            out_.insert(rng.randrange(len(out_) + 1), 0)
        return out_
    starts = [0, 0, 1, (1 << 57) - 1, (1 << 57) - 2, (1 << 57) - 3, (1 << 57), (1 << 121) - 1, (1 << 121) - 2, rng.getrandbits(100)]
    for _ in range(ctx.scale(260, 6000)):
        total = rng.choice(dense + [rng.randint(0, 520)])
        msg = rbytes(rng, total)
        parts, pos = [], 0
        for n in chunking(total):
            parts.append(msg[pos:pos + n]); pos += n
        i = rng.choice(starts)
        key = rbytes(rng, rng.choice([0, 0, 0, 1, 32, 64]), "rand")
        add("c-stream", ("S", rng.choice([1, 20, 32, 64, rng.randint(1, 64)]), key, i * 128, parts))
    for _ in range(ctx.scale(60, 1500)):
        add("rfc-spec", ("F", rng.choice(starts), rng.randint(1, 64), rbytes(rng, rng.choice([0, 0, 16, 64]), "rand"),
                         rbytes(rng, rng.choice(dense + [rng.randint(0, 400)]))))
    # (5) stringer.hash = base58(blake2b)
    for _ in range(ctx.scale(150, 5000)):
        add("stringer", ("H", rng.choice([20, 20, 20, 8, 16, 32, 64, rng.randint(1, 64)]),
                         rbytes(rng, rng.choice([0, 0, 0, 16, 64]), "rand"), rbytes(rng, rng.choice(dense + [rng.randint(0, 300)]))))
    for _ in range(ctx.scale(40, 1000)):
        add("stringer", ("h", rbytes(rng, rng.choice(dense + [rng.randint(0, 300)]))))
    # (6) Base58 encode: every string of length <= 2; leading-zero runs x tails; extremes; limits
    add("b58-exhaustive", ("E", b""))
    for a in range(256):
        add("b58-exhaustive", ("E", bytes([a])))
    for a in range(256):
        for b in range(256):
            add("b58-exhaustive", ("E", bytes([a, b])))
    for n in range(1, 257, ctx.scale(15, 1)):
        add("b58-ff", ("E", b"\xff" * n))               # largest value per length: where the size estimate is tightest
    for n in (254, 255, 256):
        add("b58-ff", ("E", b"\xff" * n))
        add("b58-ff", ("E", b"\x01" + bytes(n - 1)))
        add("b58-ff", ("E", bytes(n)))
    for n in (257, 258, 300, 360, 361, 400):
        add("b58-toolong", ("E", rbytes(rng, n)))
    encs = []
    for _ in range(ctx.scale(220, 6000)):
        z = rng.choice([0, 0, 1, 2, 3, 7, rng.randint(0, 40)])
        tl = rng.choice([0, 1, 2, 3, 8, 20, 32, 64, rng.randint(0, 256)])
        if not ctx.thorough and tl > 64 and rng.random() < 0.7:
            tl = rng.randint(0, 64)
        x = (bytes(z) + rbytes(rng, tl))[:rng.choice([256, 256, 300])]
        add("b58-zeros-tails", ("E", x))
        encs.append(x)
    # (7) Base58 decode: every string of length <= 2 (valid or not); round trips; valid alphabet strings; malformed
    for a in range(256):
        add("b58-exhaustive", ("D", bytes([a])))
    for a in range(256):
        for b in range(256):
            add("b58-exhaustive", ("D", bytes([a, b])))
    for x in encs:
        if len(x) <= ENC_MAX:
            add("b58-roundtrip", ("D", ref_b58enc(x)))
    for _ in range(ctx.scale(160, 5000)):
        z = rng.choice([0, 0, 1, 2, 5, rng.randint(0, 60)])
        tl = rng.choice([1, 2, 3, 10, 27, 44, 88, rng.randint(0, 360)])
        if not ctx.thorough and tl > 90 and rng.random() < 0.7:
            tl = rng.randint(0, 90)
        s = ("1" * z + "".join(rng.choice(ALPHABET) for _ in range(tl)))[:rng.choice([360, 360, 365])]
        add("b58-valid", ("D", s.encode()))
    for n in (349, 350, 351, 359, 360):
        add("b58-limits", ("D", b"z" * n))
        add("b58-limits", ("D", b"1" * n))
        add("b58-limits", ("D", b"1" * (n - 1) + b"z"))
    for n in (361, 362, 400):
        add("b58-limits", ("D", b"1" * n))
        add("b58-limits", ("D", b"z" * n))
    bad = [c for c in range(256) if chr(c) not in ALPHABET]
    for _ in range(ctx.scale(300, 6000)):
        tl = rng.choice([1, 2, 3, 5, 10, 30, rng.randint(1, 120)])
        s = bytearray(rng.choice(ALPHABET.encode()) for _ in range(tl))
        for _ in range(rng.choice([1, 1, 2])):
            s[rng.randrange(tl)] = rng.choice(bad + [0, 48, 73, 79, 108, 128, 255, 0x80 | ord("2")])
        add("b58-malformed", ("D", bytes(s)))
    # (7b) values at digit-count / limb boundaries: 58^k, 58^k +- 1 (encode side: carry through the whole digit buffer,
    #      the `high` shortcut; decode side: '2' '1'^k and 'z'^k) and 2^(32 j), 2^(32 j) +- 1 (decoder limb carries)
    def be(v):
        return v.to_bytes((v.bit_length() + 7) // 8, "big") if v else b""
    ks = list(range(1, 12)) + [rng.randint(12, 349) for _ in range(ctx.scale(10, 120))] + [348, 349]
    for k in ks:
        for dv in (-1, 0, 1):
            x = be(58 ** k + dv)
            if len(x) <= ENC_MAX:
                add("b58-boundaries", ("E", bytes(rng.choice([0, 0, 1, 3])) + x))
        add("b58-boundaries", ("D", b"2" + b"1" * k))
        add("b58-boundaries", ("D", b"z" * k))
        add("b58-boundaries", ("D", b"1" * rng.choice([0, 1, 2]) + b"2" + b"1" * (k - 1) + b"2"))
    for j in list(range(1, 9)) + [rng.randint(9, 63) for _ in range(ctx.scale(6, 60))] + [63, 64]:
        for dv in (-1, 0, 1):
            x = be((1 << (32 * j)) + dv)
            if len(x) <= ENC_MAX:
                add("b58-boundaries", ("E", x))
                add("b58-boundaries", ("D", ref_b58enc(x)))
    # (8) the positional spec written in Coq against the Python reference (validates the spec side)
    for _ in range(ctx.scale(60, 1500)):
        x = bytes(rng.choice([0, 1, 2])) + rbytes(rng, rng.randint(0, 40))
        add("b58-spec", ("e", x))
        add("b58-spec", ("d", ref_b58enc(x)))
    return cases, dist


def run_sharded(cmd_for, lines, nshards, timeout, env=None):
    """Run `lines` through nshards copies of a line-oriented filter (round-robin split, so that long and short
    cases are spread evenly); returns (output lines in the original order, None) or (None, message)."""
    import subprocess
    import threading
    n = len(lines)
    nshards = max(1, min(nshards, (n + 999) // 1000))
    outs = [None] * nshards
    errs = [None] * nshards

    def work(i):
        mine = lines[i::nshards]
        e = dict(os.environ)
        if env:
            e.update(env)
        try:
            p = subprocess.run(cmd_for, input="\n".join(mine) + "\n", env=e, timeout=timeout,
                               stdout=subprocess.PIPE, stderr=subprocess.PIPE, text=True, errors="replace")
            ol = p.stdout.split("\n")
            if ol and ol[-1] == "":
                ol.pop()
            if p.returncode != 0 or len(ol) != len(mine):
                head = re.search(r"(ERROR: AddressSanitizer[^\n]*|[^\n]*runtime error:[^\n]*)", p.stderr)
                errs[i] = "rc=%s lines=%d/%d first-unanswered=`%s` %s %s" % (
                    p.returncode, len(ol), len(mine), (mine[len(ol)] if len(ol) < len(mine) else "")[:600],
                    head.group(1) if head else "", p.stderr[-600:])
            outs[i] = ol
        except subprocess.TimeoutExpired:
            errs[i] = "timeout after %ss" % timeout
    ts = [threading.Thread(target=work, args=(i,)) for i in range(nshards)]
    for t in ts:
        t.start()
    for t in ts:
        t.join()
    bad = [e for e in errs if e]
    if bad:
        return None, "; ".join(bad)
    res = [None] * n
    for i in range(nshards):
        res[i::nshards] = outs[i]
    return res, None


def build_c_harness(ctx):
    """gcc -fsanitize=address,undefined harness/C20/stream.c with HASHER_C = REPO/src/hasher.c (cached by content hash)."""
    src = os.path.join(vlib.VERIF, "harness", ID, "stream.c")
    hc = os.path.join(vlib.REPO, "src", "hasher.c")
    key = vlib.sha_files([src, hc])[:16]
    exe = os.path.join(ctx.work, "stream-%s" % key)
    if os.path.exists(exe):
        return exe, None
    cmd = ["gcc", "-O1", "-g", "-w", "-fsanitize=address,undefined", "-fno-sanitize-recover=all", "-fno-omit-frame-pointer",
           "-I" + os.path.join(vlib.REPO, "src", "lua"), "-DHASHER_C=\"%s\"" % hc, src, "-o", exe + ".tmp%d" % os.getpid()]
    rc, out, err = vlib.sh(cmd, timeout=300)
    if rc != 0:
        return None, (out + err)[-800:]
    os.rename(exe + ".tmp%d" % os.getpid(), exe)
    for f in os.listdir(ctx.work):
        if f.startswith("stream-") and f != os.path.basename(exe) and ".tmp" not in f:
            try:
                os.remove(os.path.join(ctx.work, f))
            except OSError:
                pass
    return exe, None


def correspond(ctx):
    driver = vlib.ocaml_build(ID)
    interp = vlib.ensure_interp()
    corpus = []
    cp = os.path.join(vlib.VERIF, "corpus", ID, "cases.txt")
    if os.path.exists(cp):
        for line in vlib.read(cp).split("\n"):
            if line.strip() and not line.startswith("#"):
                corpus.append(("corpus", parse(line)))
    cases, dist = gen_cases(ctx)
    # the digest lengths the compiler itself passes to stringer.hash (scraped call sites) must be valid digest lengths
    try:
        st = scrape_stringer()
        for site in st["sites"]:
            ln = site["len"] if site["len"] is not None else st["default"]
            if isinstance(ln, int):
                cases.append(("callsites", ("H", ln, b"", ("call site %s" % site["where"]).encode())))
                dist["callsites"] = dist.get("callsites", 0) + 1
                if not (1 <= ln <= 64):
                    ctx.violation("stringer-callsite:%s" % site["where"], "oracle",
                                  "%s calls stringer.hash with digest length %d, outside BLAKE2b's 1..64: hasher.blake2b raises 'bad digest size'" % (site["where"], ln),
                                  detail={"site": site, "replay": "echo 'H %d - 00' | <nelua-lua> harness/C20/ops.lua" % ln})
    except Exception as ex:
        ctx.note("call-site scrape failed in correspond: %s" % ex)
    if corpus:
        dist["corpus"] = len(corpus)
    cases = corpus + cases
    lines = [fmt(c) for _, c in cases]
    shards = ctx.scale(4, 12)
    mlines, merr = run_sharded([driver], lines, shards, ctx.scale(600, 3000))
    impl_idx = [i for i, (_, c) in enumerate(cases) if c[0] in ("B", "E", "D", "H", "h", "b", "K")]
    ilines_, ierr = run_sharded([interp, os.path.join(vlib.VERIF, "harness", ID, "ops.lua")],
                                [lines[i] for i in impl_idx], 2, 1200, env=vlib.lua_env())
    if mlines is None or ilines_ is None:
        ctx.violation("harness-run", "harness", "model driver: %s / lua harness: %s" % (merr, ierr), failing_input=False)
        return {"evaluations": 0, "distinct_nontrivial": 0, "rule": "harness failed", "samples": lines[:3]}
    ilines = {i: l for i, l in zip(impl_idx, ilines_)}
    # the C harness: REPO/src/hasher.c compiled into harness/C20/stream.c with ASan+UBSan.  It is the implementation side of
    # the S (incremental / counter) cases, and it re-runs a sample of the B/E/D cases through the static C functions so that
    # every run (quick included) observes that the C code stays inside input[]/buf[]/outi[]/digest[].
    charness = {"built": False}
    cexe, cerr = build_c_harness(ctx)
    s_idx = [i for i, (_, c) in enumerate(cases) if c[0] == "S"]
    if cexe is None:
        ctx.violation("harness-run", "harness", "C harness (harness/C20/stream.c + REPO/src/hasher.c) does not build: %s" % cerr, failing_input=False)
    else:
        def c_ok(c):     # the static blake2b() has the preconditions that lblake2b checks: only in-domain calls go to it
            return c[0] in ("E", "D") or (c[0] == "B" and 1 <= c[1] <= 64 and len(c[2]) <= 64)
        pool = [i for i in impl_idx if c_ok(cases[i][1]) and cases[i][0] != "b58-exhaustive"]
        exh = [i for i in impl_idx if cases[i][0] == "b58-exhaustive"]
        c_idx = sorted(s_idx + pool + ctx.rng.sample(exh, min(len(exh), ctx.scale(4000, 40000))))
        senv = {"ASAN_OPTIONS": "detect_leaks=0:halt_on_error=1:abort_on_error=0", "UBSAN_OPTIONS": "halt_on_error=1:print_stacktrace=1"}
        cout, cerr2 = run_sharded([cexe], [lines[i] for i in c_idx], ctx.scale(2, 6), 1800, env=senv)
        charness = {"built": True, "cases": len(c_idx), "stream_cases": len(s_idx), "sanitizers": "address,undefined", "report": None,
                    "differences_from_interpreter_build": 0}
        if cout is None:
            m = re.search(r"first-unanswered=`([^`]*)`", cerr2 or "")
            rep = re.search(r"(ERROR: AddressSanitizer[^\n;]*|runtime error:[^\n;]*)", cerr2 or "")
            charness["report"] = (cerr2 or "")[:1200]
            ctx.violation("hasher-sanitizer:%s" % (m.group(1)[:300] if m else "?"), "oracle",
                          "hasher.c built with ASan+UBSan reports %s on `%s`" % (rep.group(1) if rep else "an abort", (m.group(1) if m else "?")[:200]),
                          detail={"case": m.group(1) if m else None, "stderr": (cerr2 or "")[-1500:],
                                  "replay": "echo '<case>' | %s" % cexe}, failing_input=bool(m))
            ctx.violations.insert(0, ctx.violations.pop()) if ctx.violations and ctx.violations[-1]["key"].startswith("hasher-sanitizer:") else None
        else:
            for i, o in zip(c_idx, cout):
                if cases[i][1][0] == "S":
                    ilines[i] = o
                elif o != ilines[i]:
                    charness["differences_from_interpreter_build"] += 1
                    if charness["differences_from_interpreter_build"] <= 2:
                        ctx.violation("hasher-cbuild-diff:%s" % lines[i][:300], "oracle",
                                      "hasher.c compiled into the C harness and into the interpreter disagree on `%s`: %s vs %s" % (lines[i][:200], o[:100], ilines[i][:100]),
                                      detail={"case": lines[i]})
    lua_idx = list(impl_idx)      # the cases ops.lua understands (the interpreter-level sanitizer stream below is fed only these)
    impl_idx = sorted(impl_idx + [i for i in s_idx if i in ilines])
    nontrivial = set()
    per_op = {}
    results = {}
    n_oracle_fail = n_model_mismatch = n_spec_fail = 0
    interp_cmd = "LUA_PATH='%s/lualib/?.lua;;' %s %s/harness/C20/ops.lua" % (vlib.REPO, interp, vlib.VERIF)
    for idx, ((stream, c), line, m) in enumerate(zip(cases, lines, mlines)):
        op = c[0]
        per_op[op] = per_op.get(op, 0) + 1
        exp = oracle(c)
        i = ilines.get(idx)
        kind = (i if i is not None else m).split(" ")[0] + ("" if (i or m).startswith("ok") else ":" + (i or m)[4:])
        results[kind] = results.get(kind, 0) + 1
        if len(c[-1]) > 0:
            nontrivial.add(line)
        if i is None:
            # spec-side streams (R, e, d): the Coq transcription of the specification vs the Python reference
            if exp is not None and m != exp:
                n_spec_fail += 1
                if n_spec_fail <= 3:
                    ctx.violation("spec-mismatch:%s" % op, "correspondence",
                                  "the Coq specification (%s) disagrees with the reference on %s: %s vs %s" % (op, line, m, exp),
                                  detail={"case": line, "coq_spec": m, "reference": exp}, failing_input=False)
            continue
        if exp is not None and i != exp:
            n_oracle_fail += 1
            if n_oracle_fail <= 6:
                what = {"B": "hasher.blake2b differs from RFC 7693 (hashlib.blake2b)",
                        "H": "stringer.hash differs from base58(RFC 7693 BLAKE2b)",
                        "h": "stringer.hash (default length) differs from base58(RFC 7693 BLAKE2b-160)",
                        "b": "hasher.blake2b(m) (default arguments) differs from RFC 7693 BLAKE2b-512",
                        "K": "hasher.blake2b(m, n, '') differs from unkeyed RFC 7693 BLAKE2b",
                        "S": "blake2b_init/update/final of hasher.c (incremental, counter preset) differ from RFC 7693 continued at that counter",
                        "E": "hasher.base58encode differs from the Bitcoin-alphabet encoding",
                        "D": "hasher.base58decode differs from the Bitcoin-alphabet decoding"}[op]
                ctx.violation("hasher:%s" % line, "oracle",
                              "%s on `%s`: implementation %s, specification %s" % (what, line[:200], i[:150], exp[:150]),
                              detail={"case": line, "stream": stream, "implementation": i, "model": m, "oracle": exp,
                                      "replay": "echo '%s' | %s" % (line, interp_cmd)})
        elif m != i:
            n_model_mismatch += 1
            if n_model_mismatch <= 3:
                ctx.violation("model-mismatch:%s" % op, "correspondence",
                              "model of hasher.c (%s) no longer corresponds to the code on `%s`: model %s, implementation %s%s" %
                              (op, line[:200], m[:150], i[:150], " (oracle agrees with the implementation)" if exp is not None else " (outside the property's domain: no oracle)"),
                              detail={"case": line, "stream": stream, "implementation": i, "model": m, "oracle": exp,
                                      "no_longer_checks": "correspondence stream C20/%s" % stream}, failing_input=False)
    # round trips on the implementation's own outputs (decode(encode x) = x and encode(decode s) = s)
    rt_lines = []
    rt_expect = []
    for idx, ((stream, c), line) in enumerate(zip(cases, lines)):
        i = ilines.get(idx)
        if i is None or not i.startswith("ok "):
            continue
        if c[0] == "E" and stream != "b58-exhaustive":
            rt_lines.append("D " + i[3:])
            rt_expect.append(("decode(encode x) = x", line, "ok " + hx(c[1])))
        elif c[0] == "D" and stream in ("b58-valid", "b58-roundtrip", "b58-limits", "b58-boundaries") and len(unhx(i[3:])) <= ENC_MAX:
            rt_lines.append("E " + i[3:])
            rt_expect.append(("encode(decode s) = s", line, "ok " + hx(c[1])))
    n_rt_fail = 0
    if rt_lines:
        rt_out, rerr = run_sharded([interp, os.path.join(vlib.VERIF, "harness", ID, "ops.lua")], rt_lines, 2, 1200, env=vlib.lua_env())
        if rt_out is None:
            ctx.violation("harness-run", "harness", "round-trip stream: %s" % rerr, failing_input=False)
        else:
            for l2, (law, l1, exp), got in zip(rt_lines, rt_expect, rt_out):
                if got != exp:
                    n_rt_fail += 1
                    if n_rt_fail <= 3:
                        ctx.violation("hasher-roundtrip:%s" % l1, "oracle",
                                      "%s fails: `%s` then `%s` gives %s, expected %s" % (law, l1[:150], l2[:150], got[:120], exp[:120]),
                                      detail={"law": law, "first": l1, "second": l2, "implementation": got, "expected": exp,
                                              "replay": "printf '%s\\n%s\\n' | %s" % (l1, l2, interp_cmd)})
    # thorough: the same case file under an ASan+UBSan build of the interpreter (REPO/src/hasher.c instrumented):
    # the theorems say the C code never leaves input[]/buf[]/outi[] (c_oob / LUndefined unreachable); this observes it.
    san = {"ran": False}
    if ctx.thorough or os.environ.get("VERIF_C20_SANITIZE"):
        try:
            sexe = vlib.ensure_interp(tag="asan", extra_flags=("-fsanitize=address,undefined", "-fno-omit-frame-pointer", "-g"))
        except Exception as ex:
            sexe = None
            ctx.note("sanitizer interpreter could not be built: %s" % str(ex)[-300:])
            san["build_error"] = str(ex)[-300:]
        if sexe:
            big = ("cross", "b58-exhaustive")
            sidx = [i for i in lua_idx if cases[i][0] not in big]      # never the C-harness-only ops (S)
            for nm, k in (("cross", 6000), ("b58-exhaustive", 20000)):
                pool = [i for i in lua_idx if cases[i][0] == nm]
                sidx += ctx.rng.sample(pool, min(len(pool), k))
            sidx.sort()
            slines = [lines[i] for i in sidx]
            senv = dict(vlib.lua_env())
            senv.update({"C20_LINEBUF": "1", "ASAN_OPTIONS": "detect_leaks=0:halt_on_error=1:abort_on_error=0", "UBSAN_OPTIONS": "halt_on_error=1:print_stacktrace=1"})
            sout, serr = run_sharded([sexe, os.path.join(vlib.VERIF, "harness", ID, "ops.lua")], slines, 4, 2400, env=senv)
            san = {"ran": True, "cases": len(slines), "report": None}
            if sout is None:
                m = re.search(r"first-unanswered=`([^`]*)`", serr or "")
                rep = re.search(r"(ERROR: AddressSanitizer[^\n;]*|runtime error:[^\n;]*)", serr or "")
                san["report"] = (serr or "")[:1200]
                ctx.violation("hasher-sanitizer:%s" % (m.group(1) if m else "?"), "oracle",
                              "the sanitizer build of hasher.c reports %s on `%s`" % (rep.group(1) if rep else "an abort", (m.group(1) if m else "?")[:200]),
                              detail={"case": m.group(1) if m else None, "stderr": (serr or "")[-1500:],
                                      "replay": "echo '<case>' | ASAN_OPTIONS=detect_leaks=0 LUA_PATH='%s/lualib/?.lua;;' %s %s/harness/C20/ops.lua" % (vlib.REPO, sexe, vlib.VERIF)},
                              failing_input=bool(m))
            else:
                bad = [(l, a, ilines[i]) for l, a, i in zip(slines, sout, sidx) if a != ilines[i]]
                san["differences_from_plain_build"] = len(bad)
                if bad:
                    ctx.violation("hasher-sanitizer-diff:%s" % bad[0][0], "oracle",
                                  "sanitizer build and plain build of hasher.c disagree on `%s`: %s vs %s" % (bad[0][0][:200], bad[0][1][:100], bad[0][2][:100]),
                                  detail={"case": bad[0][0]})
    lens = sorted({len(c[3]) for _, c in cases if c[0] == "B"})
    return {
        "evaluations": len(cases) + len(rt_lines),
        "distinct_nontrivial": len(nontrivial),
        "rule": "cases = corpus + RFC/KAT vectors + BLAKE2b (message length 0..520 dense around 0,1,7,8,9,127,128,129,255,256,257 and the "
                "block multiples; digest size 1..64; key length in {0,1,31,32,63,64}; %s) + argument checks + stringer.hash + Base58 "
                "(all strings of length <= 2 both directions, leading-zero runs x tails up to 256/360 bytes, 0xff.. extremes, limits, "
                "malformed) + round trips on the implementation's outputs; non-trivial = distinct case lines whose input string is non-empty"
                % ("full cross product" if ctx.thorough else "every length once + dense x keys x sampled digest sizes + every digest size x keys"),
        "samples": [lines[0][:160], lines[len(lines) // 7][:160], lines[len(lines) // 2][:160], lines[-1][:160]],
        "distribution": {"streams": dist, "per_op": per_op, "result_kinds": results,
                         "blake2b_message_lengths": {"distinct": len(lens), "min": lens[0] if lens else None, "max": lens[-1] if lens else None}},
        "oracle_failures": n_oracle_fail,
        "model_mismatches": n_model_mismatch,
        "spec_vs_reference_failures": n_spec_fail,
        "roundtrip_cases": len(rt_lines),
        "roundtrip_failures": n_rt_fail,
        "traces_validated_against_impl": len(impl_idx) + len(rt_lines),
        "sanitizer_stream": san,
        "sanitizer_c_harness": charness,
        "unproved": list(UNPROVED),
    }
