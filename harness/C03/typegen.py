"""Random type trees for C03 and the probe program that makes the real compiler and the C compiler
print their layouts side by side.

A type is a tuple:
  ('p', k)                       primitive number k of the scraped table
  ('ptr',)
  ('arr', n, t)
  ('rec', packed, aligned, [t..])   aligned = 0 for none
  ('uni', [t..])
"""

SAFE_PRIMS = None   # filled by the caller: indices usable in generated programs


def gen_type(rng, depth, nprims, allow_zero=False):
    r = rng.random()
    if depth <= 0 or r < 0.38:
        return ("p", rng.randrange(nprims)) if rng.random() < 0.9 else ("ptr",)
    if r < 0.55:
        n = rng.choice([1, 1, 2, 3, 5, 7, 16]) if not (allow_zero and rng.random() < .15) else 0
        return ("arr", n, gen_type(rng, depth - 1, nprims, allow_zero))
    if r < 0.88:
        nf = rng.choice([0, 1, 1, 2, 2, 3, 4, 6]) if rng.random() < .9 else 0
        fs = [gen_type(rng, depth - 1, nprims, allow_zero) for _ in range(nf)]
        packed = rng.random() < 0.2
        aligned = rng.choice([0, 0, 0, 0, 1, 2, 4, 8, 16, 32, 64, 4096]) if nf else 0
        return ("rec", packed, aligned, fs)
    nf = rng.choice([1, 2, 2, 3, 4])
    return ("uni", [gen_type(rng, depth - 1, nprims, allow_zero) for _ in range(nf)])


def is_zero(t):
    if t[0] in ("p", "ptr"):
        return False
    if t[0] == "arr":
        return t[1] == 0 or is_zero(t[2])
    fs = t[3] if t[0] == "rec" else t[1]
    return all(is_zero(f) for f in fs)


def first_member(t):
    if t[0] == "arr":
        return t[2] if t[1] > 0 else None
    fs = t[3] if t[0] == "rec" else t[1]
    return fs[0] if fs else None


def zero_literal_bad(t, cc="clang"):
    """cemitter.add_zeroed_type_literal emits `{0}` unless the type is empty (`{}`) or is a record whose
    first field is empty (`{{}}`).  `{0}` is rejected by clang ("initializer for aggregate with no elements
    requires explicit braces") when brace elision reaches an aggregate without elements: repaired in /repo
    7a419f3 (`{}` is emitted then); the predicate is only used to count how many generated types exercise it."""
    def is_empty_attr(x):      # the `is_empty` attribute of types.lua: zero-size record/union, zero-length array
        if x[0] in ("p", "ptr"):
            return False
        return x[1] == 0 if x[0] == "arr" else is_zero(x)
    if t[0] in ("p", "ptr") or is_empty_attr(t):
        return False
    if t[0] == "rec" and t[3] and is_empty_attr(t[3][0]):
        return False
    cur = first_member(t)
    while cur is not None and cur[0] not in ("p", "ptr"):
        nxt = first_member(cur)
        if nxt is None:
            # gcc only warns, except for a zero-length array of records/unions ("incompatible types")
            if cc == "gcc":
                return cur[0] == "arr" and cur[2][0] in ("rec", "uni")
            return True
        cur = nxt
    return False


def subtrees(t, acc=None):
    acc = [] if acc is None else acc
    if t[0] == "arr":
        subtrees(t[2], acc)
    elif t[0] == "rec":
        for f in t[3]:
            subtrees(f, acc)
    elif t[0] == "uni":
        for f in t[1]:
            subtrees(f, acc)
    acc.append(t)
    return acc


def model_syntax(t):
    if t[0] == "p":
        return "p%d" % t[1]
    if t[0] == "ptr":
        return "ptr"
    if t[0] == "arr":
        return "arr %d %s" % (t[1], model_syntax(t[2]))
    if t[0] == "rec":
        return "rec %d %d %d %s" % (1 if t[1] else 0, t[2], len(t[3]), " ".join(model_syntax(f) for f in t[3]))
    return "uni %d %s" % (len(t[1]), " ".join(model_syntax(f) for f in t[1]))


class Program:
    """Builds one Nelua probe program for a list of types (each composite gets a name)."""

    def __init__(self, prim_names):
        self.prim_names = prim_names
        self.names = {}
        self.decls = []
        self.body = []

    def tyname(self, t):
        if t[0] == "p":
            return self.prim_names[t[1]]
        if t[0] == "ptr":
            return "pointer"
        if t[0] == "arr":
            return "[%d]%s" % (t[1], self.tyname(t[2]))
        key = repr(t)
        if key in self.names:
            return self.names[key]
        name = "T%d" % (len(self.names) + 1)
        self.names[key] = name
        if t[0] == "rec":
            fields = ", ".join("f%d: %s" % (i, self.tyname(f)) for i, f in enumerate(t[3]))
            ann = []
            if t[1]:
                ann.append("packed")
            if t[2]:
                ann.append("aligned(%d)" % t[2])
            self.decls.append("local %s %s= @record{%s}" % (name, ("<" + ",".join(ann) + "> ") if ann else "", fields))
        else:
            fields = ", ".join("f%d: %s" % (i, self.tyname(f)) for i, f in enumerate(t[1]))
            self.decls.append("local %s = @union{%s}" % (name, fields))
        return name

    def add_case(self, idx, t):
        """prints 'n idx size align off..' (compiler) and 'c idx size align off..' (C compiler)"""
        name = self.tyname(t)
        nf = len(t[3]) if t[0] == "rec" else 0
        # a named alias so the preprocessor can reach the type object and the emitter its C name
        self.body.append("do")
        self.body.append("  local X = @%s" % name)
        self.body.append("  local v: X  local w: X")
        # (zero-size types included: their variables are emitted as literals since /repo 6bd6c3a)
        self.body.append("  local same = (v == w)" if t[0] in ("rec", "uni", "arr") else "  local same = true")
        offs_n = "".join(", #[X.value.fields[%d].offset]#" % (i + 1) for i in range(nf))
        self.body.append("  print('n', %d, #[X.value.size]#, #[X.value.align]#, same%s)" % (idx, offs_n))
        fmt = "c\\\\t%d\\\\t%%d\\\\t%%d" % idx + "\\\\t%d" * nf + "\\\\n"
        args = "".join(", (int)offsetof(', X.value, ', f%d)" % i for i in range(nf))
        self.body.append("  ## cemit(function(e) e:add_ln('printf(\"%s\", (int)sizeof(', X.value, '), (int)_Alignof(', X.value, ')%s);') end)" % (fmt, args))
        self.body.append("end")

    def text(self):
        return "\n".join(["## cinclude '<stdio.h>'", "## cinclude '<stddef.h>'"] + self.decls + self.body) + "\n"
