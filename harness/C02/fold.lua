-- C02 fold-side harness: calls the compiler's own compile-time evaluation functions
-- (types.lua operator tables, wrap_value, promote_type_for_value, get_convertible_from_attr,
-- cemitter.add_scalar_literal) on one case per line and prints one result line per case.
--   bin <op> <ltype> <rtype> <a> <b> [<luntyped 0|1> <runtyped 0|1>]  -> T <type> <value> | E <msg>
--   un <op> <type> <a>                                         -> T <type> <value> | E <msg>
--   conv <dtype> <stype> <v>      implicit constant conversion  -> OK | E <msg>
--   lit <type> <v>                add_scalar_literal            -> L <C text>
--   optype <op> <ltype> <rtype>   result type on non-constant operands -> T <type> | E <msg>
-- numbers are decimal.
local types = require 'nelua.types'
local typedefs = require 'nelua.typedefs'
local bn = require 'nelua.utils.bn'
local Attr = require 'nelua.attr'
local CEmitter = require 'nelua.cemitter'
local primtypes = typedefs.primtypes

local function mkattr(type, value, untyped)
  local a = Attr{type = type}
  if value ~= nil then
    a.value = value
    a.comptime = true
    if untyped then a.untyped = true end
  end
  return a
end

-- integers (decimal) become bn values as the analyzer makes them; anything with a fraction,
-- exponent, hex float or inf/nan becomes a Lua float
local function num(s)
  if s == 'inf' then return math.huge elseif s == '-inf' then return -math.huge elseif s == 'nan' then return 0.0/0.0 end
  if s:find('^%-?%d+$') then return bn.from(s) or bn.parse(s) end
  return tonumber(s)
end

local function show(v)
  if type(v) == 'boolean' then return tostring(v) end
  if math.type(v) == 'float' then return string.format('f:%a', v) end
  return tostring(v)
end

local fakectx = {pragmas = {}, usedbuiltins = {}}
function fakectx:ensure_builtin(name) return name end
function fakectx:ensure_builtins() end
function fakectx:ensure_type() end

for line in io.lines() do
  local w = {}
  for t in line:gmatch('%S+') do w[#w+1] = t end
  local ok, res = pcall(function()
    local kind = w[1]
    if kind == 'bin' then
      local lt, rt = primtypes[w[3]], primtypes[w[4]]
      local la = mkattr(lt, num(w[5]), w[7] == '1')
      local ra = mkattr(rt, num(w[6]), w[8] == '1')
      local t, v, err = lt:binary_operator(w[2], rt, la, ra)
      if not t or err then return 'E ' .. tostring(err) end
      return 'T ' .. t.name .. ' ' .. show(v)
    elseif kind == 'un' then
      local lt = primtypes[w[3]]
      local t, v, err = lt:unary_operator(w[2], mkattr(lt, num(w[4])))
      if not t or err then return 'E ' .. tostring(err) end
      return 'T ' .. t.name .. ' ' .. show(v)
    elseif kind == 'optype' then
      local lt, rt = primtypes[w[3]], primtypes[w[4]]
      local t, v, err = lt:binary_operator(w[2], rt, mkattr(lt), mkattr(rt))
      if not t or err then return 'E ' .. tostring(err) end
      return 'T ' .. t.name
    elseif kind == 'conv' then
      local dt, st = primtypes[w[2]], primtypes[w[3]]
      local t, err = dt:get_convertible_from_attr(mkattr(st, num(w[4])), false)
      if t then return 'OK ' .. t.name end
      return 'E ' .. tostring(err):gsub('%s+', ' ')
    elseif kind == 'lit' then
      local t = primtypes[w[2]]
      local em = CEmitter(fakectx)
      em:add_scalar_literal(num(w[3]), t, w[4] and tonumber(w[4]) or nil)
      return 'L ' .. em:generate()
    end
    return '?unknown'
  end)
  if ok then print(res) else print('X ' .. tostring(res):gsub('%s+', ' ')) end
end
