"""Generator of Nelua programs for the determinism differential (C07).

The programs are built to make the compiler walk many tables: several records/enums/unions
(type ids, codenames, declaration order), functions calling each other with inferred locals
(unresolved-symbol sets), unused functions (Symbol:is_used / dead code elimination),
polymorphic functions and generics instantiated with several types (memoize, poly evals),
annotations and preprocessor loops.  A fraction carries two independent errors: which one is
reported, and how, must not depend on table iteration order either."""

TYPES = ["integer", "number", "int32", "uint8", "boolean", "int64", "float32"]


def gen_program(rng, erroneous=False):
    L = []
    libs = rng.sample(["vector", "hashmap", "string", "sequence", "span", "math", "list"], rng.randint(0, 3))
    for l in libs:
        L.append("require '%s'" % l)
    nrec = rng.randint(1, 6)
    recs = []
    for i in range(nrec):
        fields = []
        for j in range(rng.randint(1, 5)):
            t = rng.choice(TYPES + ["*R%d" % k for k in range(i)] + ["R%d" % k for k in range(i)] + ["[3]integer", "string" if "string" in libs else "cstring"])
            fields.append("f%d: %s" % (j, t))
        kind = "union" if rng.random() < .15 and all("string" not in f and "R" not in f for f in fields) else "record"
        L.append("local R%d = @%s{%s}" % (i, kind, ", ".join(fields)))
        recs.append("R%d" % i)
        if rng.random() < .4:
            L.append("function R%d:m%d(x: integer): integer return x + %d end" % (i, i, i))
    if rng.random() < .7:
        L.append("local E0 = @enum{%s}" % ", ".join("K%d%s" % (k, "=%d" % k if k == 0 else "") for k in range(rng.randint(2, 6))))
    nfun = rng.randint(2, 9)
    used = set()
    for i in range(nfun):
        body = []
        if i and rng.random() < .8:
            k = rng.randrange(i)
            used.add(k)
            body.append("local a = f%d(x)" % k)       # inferred from a call
        else:
            body.append("local a = x * %d" % (i + 2))
        if rng.random() < .5:
            body.append("local b = a + 1")             # chain of inferred locals
            body.append("a = b")
        if recs and rng.random() < .5:
            r = rng.choice(recs)
            body.append("local r: %s" % r)
            body.append("if x > 1000 then print(#@%s) end" % r)
        attr = rng.choice(["", "", "", " <inline>", " <noinline>", " <nodce>"])
        L.append("local function f%d(x: integer)%s\n  %s\n  return a\nend" % (i, attr, "\n  ".join(body)))
    # polymorphic function and generic instantiations
    npoly = rng.randint(0, 3)
    for i in range(npoly):
        L.append("local function p%d(x: auto, y: auto)\n  ## if x.type.is_integral then\n  return x + 1\n  ## else\n  return x\n  ## end\nend" % i)
    if "vector" in libs:
        for t in rng.sample(TYPES + recs, min(len(TYPES + recs), rng.randint(1, 4))):
            L.append("do local v: vector(%s); v:reserve(2); print(#v) end" % t)
    if "hashmap" in libs:
        for t in rng.sample(TYPES[:4], rng.randint(1, 3)):
            L.append("do local m: hashmap(integer, %s); print(#m) end" % t)
    if "sequence" in libs and rng.random() < .7:
        L.append("do local s: sequence(integer) = {1,2,3}; print(#s) end")
    # preprocessor loop emitting several globals (ordered emission)
    if rng.random() < .6:
        names = rng.sample(["alpha", "beta", "gamma", "delta", "eps", "zeta", "eta", "theta"], rng.randint(2, 6))
        L.append("## for _,n in ipairs{%s} do\n  global #|'g_'..n|#: integer = #[#n]#\n## end" % ", ".join("'%s'" % n for n in names))
    # a Lua table with string keys converted to an AST InitList (aster.value walks it with ospairs)
    if rng.random() < .7:
        keys = rng.sample(["alpha", "beta", "gamma", "delta", "eps", "zeta", "eta", "theta", "iota", "kappa"], rng.randint(3, 8))
        L.append("local PT = @record{%s}" % ", ".join("%s: integer" % k for k in keys))
        L.append("local pt: PT = #[{%s}]#" % ", ".join("%s=%d" % (k, i) for i, k in enumerate(keys)))
        L.append("print(%s)" % ", ".join("pt.%s" % k for k in keys))
    if rng.random() < .4:
        L.append("global gx: integer <cexport> = 3")
    if rng.random() < .4:
        L.append("local unusedv: [4]number")
    # calls from the root scope: only some functions are used
    calls = rng.sample(range(nfun), rng.randint(1, nfun))
    for k in calls:
        L.append("print(f%d(%d))" % (k, k + 1))
    for i in range(npoly):
        args = rng.sample(["1", "2.5", "true", "'s'", "1_u8", "3_i32"], rng.randint(1, 3))
        for a in args:
            L.append("print(p%d(%s, 0))" % (i, a))
    if erroneous:
        errs = ["print(undefined_symbol_%d)" % rng.randrange(100),
                "local zz: integer = 'notanumber'",
                "f0(1, 2, 3)",
                "local q: R0 = 1",
                "local w = 1 + {}",
                "local function h(x: integer) return x.nofield end print(h(1))"]
        for e in rng.sample(errs, 2):
            L.insert(rng.randrange(len(libs), len(L) + 1), e)
    return "\n".join(L) + "\n"
