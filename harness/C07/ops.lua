-- Runs the case file of coq/C07/driver.ml against the real Lua functions:
--   nelua.utils.iterators.ospairs, nelua.utils.memoize, Symbol:is_used, Type:_init (type ids).
local iterators = require 'nelua.utils.iterators'
local memoize = require 'nelua.utils.memoize'
local Symbol = require 'nelua.symbol'
local types = require 'nelua.types'

local function unhex(h) return (h:gsub('..', function(c) return string.char(tonumber(c, 16)) end)) end
local function hex(s) return (s:gsub('.', function(c) return string.format('%02x', c:byte()) end)) end
local function split(s, sep)
  local t = {}
  if s == '' or s == '-' then return t end
  for w in (s..sep):gmatch('(.-)'..sep:gsub('%p','%%%0')) do t[#t+1] = w end
  return t
end

local idcount = 0
for line in io.lines() do
  local w = {}
  for tok in line:gmatch('%S+') do w[#w+1] = tok end
  local out
  local op = w[1]
  if op == 'ospairs' then
    local t = {}
    for i=2,#w do
      local k, v = w[i]:match('^(.-)=(-?%d+)$')
      if k:sub(1,2) == 's:' then t[unhex(k:sub(3))] = tonumber(v) else t[tonumber(k:sub(3))] = tonumber(v) end
    end
    local r = {}
    for k,v in iterators.ospairs(t) do r[#r+1] = hex(k)..'='..v end
    out = table.concat(r, ',')
  elseif op == 'memo' then
    local evals, results, order = 0, {}, {}
    local f = memoize(function(...) evals = evals + 1; local o = {}; results[o] = evals - 1; return o end)
    local tabs = {}
    local calls = {}
    for c in (table.concat(w, ' ', 2)..'|'):gmatch('(.-)|') do calls[#calls+1] = c end
    for _,call in ipairs(calls) do
      local args, nargs = {}, 0
      for _,a in ipairs(split(call, ';')) do
        local c = a:sub(1,1)
        nargs = nargs + 1
        if c == 'n' then args[nargs] = tonumber(a:sub(2))
        elseif c == 's' then args[nargs] = unhex(a:sub(2))
        elseif c == 'z' then args[nargs] = nil
        else
          local id, content = a:sub(2):match('^(-?%d+):?(.*)$')
          local t = tabs[id]
          if not t then
            t = {}
            for _,kv in ipairs(split(content, ',')) do
              local k, v = kv:match('^(-?%d+)=(-?%d+)$')
              t[tonumber(k)] = tonumber(v)
            end
            tabs[id] = t
          end
          args[nargs] = t
        end
      end
      order[#order+1] = results[f(table.unpack(args, 1, nargs))]
    end
    out = table.concat(order, ' ')..' #'..evals
  elseif op == 'used' then
    local syms = {}
    local function sym(i)
      if not syms[i] then syms[i] = setmetatable({name='s'..i}, Symbol) end
      return syms[i]
    end
    for _,e in ipairs(split(w[2], ',')) do
      local x, y = e:match('^(%d+)>(%d+)$')
      sym(x):add_use_by(sym(y))
    end
    for _,r in ipairs(split(w[3], ',')) do sym(r).cexport = true end
    local r = {}
    for _,q in ipairs(split(w[4], ',')) do r[#r+1] = sym(q):is_used(true) and '1' or '0' end
    out = table.concat(r, ',')
  elseif op == 'ids' then
    local base
    local r = {}
    idcount = idcount + 1
    for i=2,#w do
      local t = setmetatable({codename = 'zz'..idcount..'_'..w[i]}, types.Type)
      types.Type._init(t, 'probe', 0)
      base = base or t.id
      r[#r+1] = t.id - base
    end
    out = table.concat(r, ',')
  else
    out = '?unknown'
  end
  io.write(out, '\n')
end
