-- Drives the real Symbol:is_used (lualib/nelua/symbol.lua) on symbol graphs given one per line:
--   <sym> r <root> <root> .. e <sym>:<u>,<u>,.. ..
-- roots are marked by add_use_by(nil) (use on the root scope); "<s>:<u>,.." means s is used by the
-- function symbols u.  Prints 1/0 for `syms[<sym>]:is_used(true)`; each line gets fresh symbols.
local Symbol = require 'nelua.symbol'
for line in io.lines() do
  local words = {}
  for w in line:gmatch('%S+') do words[#words + 1] = w end
  if #words > 0 then
    local syms = setmetatable({}, {__index = function(t, k)
      local s = Symbol{name = 's' .. k}
      rawset(t, k, s)
      return s
    end})
    local target = tonumber(words[1])
    local mode
    for i = 2, #words do
      local w = words[i]
      if w == 'r' or w == 'e' then mode = w
      elseif mode == 'r' then syms[tonumber(w)]:add_use_by(nil)
      else
        local s, us = w:match('^(%d+):(.*)$')
        for u in us:gmatch('%d+') do syms[tonumber(s)]:add_use_by(syms[tonumber(u)]) end
      end
    end
    print(syms[target]:is_used(true) and '1' or '0')
  end
end
