"""Replays a cache history (steps in the syntax of coq/C08/driver.ml) on the real compiler.

A history is a list of tokens
    A:<ticks>                                   time passes (1 tick = 0.1 s)
    R:<slot>:<out|->:<code>:<cmd>:<cc>:<nohead>:<nocache>:<dur>     one compiler invocation
    I:<same fields>                             same, but a build (if any) is killed leaving an empty file
    C:<same fields>                             nelua --code: only <cache>/<slot>.c is (re)generated
(the whole seconds of the <dur> field of the *input* history are imposed as "the build took that much
longer": every other file is aged by that many seconds right after the build; the rest is observed).

Time.  Invocations run in real time.  `A:d` sleeps the fractional part of d and imposes the
whole seconds by shifting the mtime of every file of the scratch cache/output directories back
by that many seconds with os.utime (exactly what the compiler would see had it been started
that many seconds later: lfs reports st_mtime in whole seconds).  After every invocation the
files are stat'ed; a changed st_mtime_ns tells which file was written and when, and the
*observed* write times (real time + total shift) are what the model is run on.  Nothing is
retried here; callers that need two writes inside one second retry the whole history.

What is varied (the compiler sees genuine edits / options):
    code = 4*a + 2*b + d   a: constant in the main file (a odd -> the source lives in a second
                           directory: "switch between two sources with the same basename"),
                           b: constant in a required module, d: -DDVAL=<d>;  code >= 900: invalid C
    cmd  = k + 1000*l      --cflags=-DK=<k>;  k >= 100 additionally --release;  l selects the directory in which the
                           linker finds libk08.a (the program prints what that library returns): l = 0|1 via
                           --ldflags=-L<dir>, l = 2 via the LDFLAGS environment variable - changes of LINK options only;
                           k >= 100 additionally --release (the generated C of these programs is the
                           same with and without --release, so it is purely a change of the compiler command)
    cc   = w               the WORLD: w % 10 = the compiler behind the (constant) --cc wrapper (0 gcc, 1 clang),
                           (w // 10) % 10 = the version of a C header found through `## cincdir` (since 304728c its
                           content is part of the heading hash), w // 100 = the version of a C header found only
                           through --cflags -I (an edit of it changes neither the generated C nor the command nor
                           anything the heading hash covers)
    nohead                 -P nocheading         nocache   --no-cache
    out                    -o <scratch>/out/o<n>  (the artefact is then executed by the replayer)
"""
import math
import os
import re
import shutil
import stat
import subprocess
import time

TPS = 10
REALCC = {0: "gcc", 1: "clang"}

WRAPPER = """#!/bin/sh
# stands for "the C compiler installed under this name"; C08_KILL simulates a build killed while
# writing its output (an empty file is left behind)
case " $* " in *" -E "*) exec %(cc)s "$@";; esac
if [ -n "$C08_KILL" ]; then
  prev=""
  for a in "$@"; do
    if [ "$prev" = "-o" ]; then : > "$a"; fi
    prev="$a"
  done
  exit 1
fi
exec %(cc)s "$@"
"""


def parse_step(tok):
    f = tok.split(":")
    if f[0] == "A":
        return {"k": "A", "d": int(f[1])}
    return {"k": f[0], "slot": int(f[1]), "out": None if f[2] == "-" else int(f[2]), "code": int(f[3]),
            "cmd": int(f[4]), "cc": int(f[5]), "nohead": f[6] == "1", "nocache": f[7] == "1",
            "dur": int(f[8]) if len(f) > 8 else 0}


def fmt_step(s, dur=None):
    if s["k"] == "A":
        return "A:%d" % s["d"]
    return "%s:%d:%s:%d:%d:%d:%d:%d:%d" % (s["k"], s["slot"], "-" if s["out"] is None else str(s["out"]), s["code"],
                                          s["cmd"], s["cc"], int(s["nohead"]), int(s["nocache"]),
                                          s["dur"] if dur is None else dur)


def main_source(slot, code, hdrd="."):
    a = code // 4
    bad = "## cemit 'this is not C;\\n'\n" if code >= 900 else ""
    return ("require 'cval%d'\n"
            "## cinclude '\"c08hdr.h\"'\n"
            "## cincdir '%s'\n"
            "## cinclude '\"c08hdrx.h\"'\n"
            "## linklib 'k08'\n"
            "## cemit 'int c08_libval(void);\\n'\n"
            "local function c08_libval(): cint <cimport,nodecl> end\n"
            "local HV: cint <cimport,nodecl>\n"
            "local HX: cint <cimport,nodecl>\n"
            "## local d = DVAL or 0\n"
            "## cemit '#ifdef __clang__\\n#define CCID 1\\n#else\\n#define CCID 0\\n#endif\\n#ifndef K\\n#define K 0\\n#endif\\n'\n"
            "%s"
            "local CCID: cint <cimport,nodecl>\n"
            "local K: cint <cimport,nodecl>\n"
            "local MAINVAL <comptime> = %d\n"
            "print('code', MAINVAL*4 + MODVAL*2 + #[d]#, 'K', K + 1000*c08_libval(), 'cc', CCID + 10*HV + 100*HX)\n" % (slot, hdrd, bad, a))


def mod_source(code):
    return "global MODVAL <comptime> = %d\n" % ((code // 2) % 2)


def write_if_differs(path, text):
    try:
        with open(path) as f:
            if f.read() == text:
                return
    except OSError:
        pass
    with open(path, "w") as f:
        f.write(text)


class Replayer:
    def __init__(self, interp, repo, hdir):
        self.interp = interp
        self.repo = repo
        self.hdir = hdir
        shutil.rmtree(hdir, ignore_errors=True)
        self.cache = os.path.join(hdir, "cache")
        self.outd = os.path.join(hdir, "out")
        self.hdrd = os.path.join(hdir, "hdr")
        self.hdrxd = os.path.join(hdir, "hdrx")
        for d in (self.cache, self.outd, self.hdrd, self.hdrxd, os.path.join(hdir, "srcA"), os.path.join(hdir, "srcB")):
            os.makedirs(d)
        self.libd = []
        for v in range(3):                       # three builds of one static library: the link options choose
            ld = os.path.join(hdir, "lib%d" % v)
            os.makedirs(ld)
            with open(os.path.join(ld, "k08.c"), "w") as f:
                f.write("int c08_libval(void) { return %d; }\n" % v)
            subprocess.run(["gcc", "-c", "k08.c", "-o", "k08.o"], cwd=ld, check=True)
            subprocess.run(["ar", "rcs", "libk08.a", "k08.o"], cwd=ld, check=True)
            self.libd.append(ld)
        self.wrapper = os.path.join(hdir, "mycc")
        self.cur_cc = None
        self.shift = 0            # whole seconds by which the directory has been aged so far
        self.T0 = math.floor(time.time())
        self.env = dict(os.environ)
        self.env["LUA_PATH"] = os.path.join(repo, "lualib", "?.lua") + ";;"
        self.env["LUA_INIT"] = ""
        self.env.pop("C08_KILL", None)

    def set_cc(self, cc):
        if self.cur_cc != cc:
            with open(self.wrapper + ".tmp", "w") as f:
                f.write(WRAPPER % {"cc": REALCC[cc]})
            os.chmod(self.wrapper + ".tmp", 0o755)
            os.rename(self.wrapper + ".tmp", self.wrapper)
            self.cur_cc = cc

    def advance(self, ticks):
        whole, frac = divmod(max(0, ticks), TPS)
        if whole:
            for d in (self.cache, self.outd):
                for f in os.listdir(d):
                    p = os.path.join(d, f)
                    st = os.stat(p)
                    os.utime(p, ns=(st.st_atime_ns - whole * 10**9, st.st_mtime_ns - whole * 10**9))
            self.shift += whole
        if frac:
            time.sleep(frac / TPS)

    def _stat(self, p):
        try:
            st = os.stat(p)
            return (st.st_mtime_ns, st.st_size)
        except OSError:
            return None

    def tick_of(self, mtime_ns):
        return (mtime_ns + self.shift * 10**9 - self.T0 * 10**9) // (10**9 // TPS)

    def args_of(self, s, cache, outp):
        k, l = s["cmd"] % 1000, s["cmd"] // 1000
        a = ["--verbose", "--cache-dir", cache, "--cc", self.wrapper, "--cflags=-DK=%d -I %s" % (k, self.hdrxd), "-DDVAL=%d" % (s["code"] % 2)]
        if l < 2:
            a += ["--ldflags=-L%s" % self.libd[l]]
        if k >= 100:
            a += ["--release"]
        if s["nohead"]:
            a += ["-P", "nocheading"]
        if s["nocache"]:
            a += ["--no-cache"]
        if outp:
            a += ["-o", outp]
        if s["k"] == "C":
            a += ["--code"]
        return a + ["slot%d.nelua" % s["slot"]]

    def prepare_sources(self, s):
        sdir = os.path.join(self.hdir, "srcB" if (s["code"] // 4) % 2 == 1 else "srcA")
        write_if_differs(os.path.join(sdir, "slot%d.nelua" % s["slot"]), main_source(s["slot"], s["code"], self.hdrd))
        write_if_differs(os.path.join(sdir, "cval%d.nelua" % s["slot"]), mod_source(s["code"]))
        write_if_differs(os.path.join(self.hdrd, "c08hdr.h"), "#define HV %d\n" % ((s["cc"] // 10) % 10))
        write_if_differs(os.path.join(self.hdrxd, "c08hdrx.h"), "#define HX %d\n" % (s["cc"] // 100))
        return sdir

    def nelua(self, args, cwd, kill=False, ldenv=None):
        env = dict(self.env)
        env.pop("LDFLAGS", None)
        if ldenv:
            env["LDFLAGS"] = ldenv
        if kill:
            env["C08_KILL"] = "1"
        p = subprocess.run([self.interp, "-lnelua", os.path.join(self.repo, "nelua.lua")] + args, cwd=cwd, env=env,
                           stdout=subprocess.PIPE, stderr=subprocess.PIPE, text=True, errors="replace", timeout=300)
        return p.returncode, p.stdout, p.stderr

    @staticmethod
    def outcome_of(stdout, rc, kill_attempted, build_attempted):
        for line in stdout.splitlines():
            w = line.split("\t")
            if len(w) == 6 and w[0] == "code" and w[2] == "K" and w[4] == "cc":
                return "ran.%s.%s.%s" % (w[1], w[3], w[5])
        if build_attempted and kill_attempted:
            return "killed"
        if build_attempted:
            return "buildfail"
        return "execfail"

    def invoke(self, s):
        """Perform one R/I step.  Returns a dict with decisions, outcome and observed write ticks."""
        self.set_cc(s["cc"] % 10)
        sdir = self.prepare_sources(s)
        cfile = os.path.join(self.cache, "slot%d.c" % s["slot"])
        outp = os.path.join(self.outd, "o%d" % s["out"]) if s["out"] is not None else None
        binp = outp or os.path.join(self.cache, "slot%d" % s["slot"])
        if s["k"] == "C" and outp:          # --code -o X writes X.c and nothing else
            outp = outp + "_code"
            binp = os.path.join(self.cache, "slot%d" % s["slot"])
        before = (self._stat(cfile), self._stat(binp))
        kill = s["k"] == "I"
        ldenv = "-L%s" % self.libd[2] if s["cmd"] // 1000 == 2 else None
        rc, out, err = self.nelua(self.args_of(s, self.cache, outp), sdir, kill=kill, ldenv=ldenv)
        # tie fact: the command compile_binary executes is the command recorded in the heading of the C file
        # (modulo the output path), so that "same heading => same command"
        executed = [l for l in out.splitlines() if l.startswith(self.wrapper + " ")]
        heading = None
        try:
            with open(cfile, errors="replace") as fh:
                for _ in range(3):
                    line = fh.readline()
                    if line.startswith("/* Compile command: "):
                        heading = line[len("/* Compile command: "):].rstrip()[:-3].rstrip()
        except OSError:
            pass
        norm = lambda c: re.sub(r'-o "[^"]*"', "-o <OUT>", c)
        cmd_covered = None if (not executed or heading is None or s["k"] == "C") else (norm(executed[0]) == norm(heading))
        after = (self._stat(cfile), self._stat(binp))
        slow = s.get("dur", 0) // TPS
        if slow and after[1] is not None and after[1] != before[1]:
            # a build that took `slow` seconds longer: age everything but the file it just wrote
            for d in (self.cache, self.outd):
                for f in os.listdir(d):
                    pth = os.path.join(d, f)
                    if pth != binp:
                        st = os.stat(pth)
                        os.utime(pth, ns=(st.st_atime_ns - slow * 10**9, st.st_mtime_ns - slow * 10**9))
            self.shift += slow
            before = (None if before[0] is None else (before[0][0] - slow * 10**9, before[0][1]), before[1])
            after = (self._stat(cfile), self._stat(binp))
        g = "using cached generated " in out
        b = "using cached binary " in out
        prog_out = out
        if outp and rc == 0 and s["k"] != "C":   # -o compiles only: execute the artefact that was served
            try:
                p = subprocess.run([outp], stdout=subprocess.PIPE, stderr=subprocess.PIPE, text=True, errors="replace", timeout=60)
                prog_out = p.stdout
            except OSError:
                prog_out = ""
        outcome = self.outcome_of(prog_out, rc, kill, not b) if s["k"] != "C" else ("codeonly" if rc == 0 else "buildfail")
        cw = after[0] is not None and after[0] != before[0]
        bw = after[1] is not None and after[1] != before[1]
        return {"g": g, "b": b, "outcome": outcome, "rc": rc, "cmd_covered": cmd_covered,
                "executed_cmd": executed[0] if executed else None, "heading_cmd": heading,
                "cfile_written": cw, "bin_written": bw,
                "tc": self.tick_of(after[0][0]) if cw else None,
                "tb": self.tick_of(after[1][0]) if bw else None,
                "cfile_sec": after[0][0] // 10**9 + self.shift if after[0] else None,
                "bin_sec": after[1][0] // 10**9 + self.shift if after[1] else None,
                "stderr": err[-400:], "stdout": out[-600:]}

    def reference(self, s, refdir):
        """The same invocation with --no-cache in a fresh directory."""
        shutil.rmtree(refdir, ignore_errors=True)
        os.makedirs(os.path.join(refdir, "cache"))
        self.set_cc(s["cc"] % 10)
        sdir = self.prepare_sources(s)
        s2 = dict(s)
        s2["nocache"] = True
        outp = os.path.join(refdir, "o") if s["out"] is not None else None
        rc, out, err = self.nelua(self.args_of(s2, os.path.join(refdir, "cache"), outp), sdir,
                                  ldenv="-L%s" % self.libd[2] if s["cmd"] // 1000 == 2 else None)
        prog_out = out
        if outp and rc == 0:
            try:
                p = subprocess.run([outp], stdout=subprocess.PIPE, stderr=subprocess.PIPE, text=True, errors="replace", timeout=60)
                prog_out = p.stdout
            except OSError:
                prog_out = ""
        res = self.outcome_of(prog_out, rc, False, True)
        shutil.rmtree(refdir, ignore_errors=True)
        return res


def replay(interp, repo, hdir, tokens, with_reference=True):
    """Replay a history.  Returns (records, observed_tokens): per step a record (None for A) and
    the history re-timed with the observed write times, in the syntax of the model driver."""
    r = Replayer(interp, repo, hdir)
    steps = [parse_step(t) for t in tokens]
    recs = []
    obs_tokens = []
    clock = 0
    refs = {}
    for s in steps:
        if s["k"] == "A":
            r.advance(s["d"])
            recs.append(None)
            continue
        rec = r.invoke(s)
        rec["_s"] = s
        # model time: advance to the observed write, duration = observed build time
        first = rec["tc"] if rec["cfile_written"] else (rec["tb"] if rec["bin_written"] else None)
        dur = 0
        if first is not None:
            adv = max(0, first - clock)
            if adv:
                obs_tokens.append("A:%d" % adv)
            clock += adv
            if rec["cfile_written"] and rec["bin_written"]:
                dur = max(0, rec["tb"] - clock)
            clock += dur
        obs_tokens.append(fmt_step(s, dur))
        rec["step"] = fmt_step(s, dur)
        recs.append(rec)
    # references are computed after the history so that they do not disturb its timing
    for rec in recs:
        if rec is None:
            continue
        s = rec.pop("_s")
        if rec["outcome"] in ("killed", "codeonly") or not with_reference:
            rec["reference"] = None
            continue
        key = (s["slot"], s["code"], s["cmd"], s["cc"], s["nohead"], s["out"] is not None)
        if key not in refs:
            refs[key] = r.reference(s, os.path.join(hdir, "ref"))
        rec["reference"] = refs[key]
    shutil.rmtree(hdir, ignore_errors=True)
    return [x for x in recs if x is not None], obs_tokens
