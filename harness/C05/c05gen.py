"""C05 harness side: random programs of the static-rule mini-AST, printed as Nelua inside several
embeddings; every statement is identified by the source line it is printed on (that id goes to the
model, and is what the compiler's `file:line:col: error:` is compared with).

AST (python tuples), mirrors coq/C05/Model.v:
  ('local',x,q) ('assign',x) ('use',x) ('func',f,[params],block) ('call',f,n) ('do',b) ('if',t,e)
  ('while',b) ('repeat',b) ('for',b) ('switch',[blocks],els,d[,case values]) ('break',) ('continue',)
  ('fallthrough',) ('label',l) ('goto',l) ('defer',b) ('index',len,k) ('conv',t,v)
"""
import re

QUALS = ["", " <const>", " <comptime>"]
FPBASE = 50       # variables v50.. are function pointers: `function v50() ... end` assigns a new function to them

# forms of a reference produced by preprocessor interpolation (the Id node then carries a forced symbol)
INTERP_STYLES = ["expr", "macro", "ppfor"]

PRELUDE = """## local function zuse(s)
  sink(#[s]#)
## end
## local function zasg(s)
  #[s]# = 1
## end
local function f0() end
local function cond(): boolean <noinline> return true end
local function sel(): integer <noinline> return 1 end
local function sink(a: integer) <noinline> end
"""

EMBEDDINGS = ["toplevel", "nested", "function", "poly", "generic", "ppmacro"]


def lit(v):
    """Nelua literal of the exact integer v in [-2^63, 2^64-1]: values above the int64 range need the
    _u64 suffix (an unsuffixed literal is an int64)."""
    if v < 0:
        return "-%d" % -v if -v <= (1 << 63) - 1 else "(-9223372036854775807 - 1)" if v == -(1 << 63) else None
    return "%d" % v if v <= (1 << 63) - 1 else "%d_u64" % v


# where a constant is converted to an integral type (the whole construct is printed on one line)
SINKS = ["decl", "assign", "return", "field", "arr", "param", "overload", "facultative", "concept", "recinit",
         "method", "cparam", "autoc"]
CONCEPT_SINKS = ("overload", "facultative", "concept")     # parameter typed by a concept that suggests the type
# how the constant is written
SOURCES = ["lit", "comptime", "fold", "enum", "floatint", "frac"]


def conv_source(kind, v):
    """-> (declarations, expression) for the compile-time constant v"""
    if kind == "comptime":
        return "local K <comptime> = %s " % lit(v), "K"
    if kind == "fold" and abs(v) < (1 << 62):
        a = v // 2
        return "", "(%s + %s)" % (lit(a), lit(v - a))
    if kind == "enum" and -(1 << 63) <= v < (1 << 63):
        return "local E = @enum(int64){A = %s} " % lit(v), "E.A"
    if kind == "floatint" and abs(v) < (1 << 52):
        return "", ("%d.0" % v if v >= 0 else "(-%d.0)" % -v)
    return "", lit(v)


def conv_sink(kind, T, pre, e):
    if kind == "assign": return "do %slocal c: %s = 0 c = %s end" % (pre, T, e)
    if kind == "return": return "do %slocal function zk(): %s return %s end zk() end" % (pre, T, e)
    if kind == "field": return "do %slocal R = @record{f: %s} local r: R = {f = %s} end" % (pre, T, e)
    if kind == "arr": return "do %slocal a: [2]%s = {0, %s} end" % (pre, T, e)
    if kind == "param": return "do %slocal function zk(x: %s) end zk(%s) end" % (pre, T, e)
    if kind == "overload": return "do %slocal function zk(x: overload(%s, boolean)) end zk(%s) end" % (pre, T, e)
    if kind == "facultative": return "do %slocal function zk(x: facultative(%s)) end zk(%s) end" % (pre, T, e)
    if kind == "concept": return "do %slocal zc = #[concept(function(x) return primtypes.%s end)]# local function zk(x: zc) end zk(%s) end" % (pre, T, e)
    if kind == "recinit": return "do %slocal R = @record{f: %s} local r = R{f = %s} end" % (pre, T, e)
    if kind == "method": return "do %slocal R = @record{} function R.zm(x: %s) end R.zm(%s) end" % (pre, T, e)
    if kind == "cparam": return "do %slocal function zk(x: %s <comptime>) end zk(%s) end" % (pre, T, e)
    if kind == "autoc": return "do %slocal function zk(x: auto <comptime>) local c: %s = x end zk(%s) end" % (pre, T, e)
    return "do %slocal c: %s = %s; end" % (pre, T, e)


LATTICE = sorted({0, 1, 2, 3, 4, 5, 7, 8, 9, 127, 128, 255, 256, 32767, 32768, 65535, 65536,
                  (1 << 31) - 1, 1 << 31, (1 << 31) + 1, (1 << 32) - 1, 1 << 32, (1 << 32) + 1,
                  (1 << 63) - 1, 1 << 63, (1 << 63) + 1, (1 << 64) - 2, (1 << 64) - 1,
                  -1, -2, -128, -129, -32768, -32769, -(1 << 31), -(1 << 31) - 1, -(1 << 32), -(1 << 63) + 1, -(1 << 63)})


def hexz(v):
    return ("-%x" % -v) if v < 0 else "%x" % v


class Printer:
    def __init__(self, type_names, style="expr"):
        self.lines = []
        self.type_names = type_names
        self.style = style
        self.macro_lines = {}     # statement line -> line of the macro body the diagnostic may point at

    def forced(self, ind, kind, x, out):
        """sink(#[vX]#) / #[vX]# = 1, printed as a plain interpolation, through a macro taking the symbol,
        or inside a `## for` generated body.  Returns the id (line) of the statement."""
        plain = "sink(#[v%d]#)" % x if kind == "UF" else "#[v%d]# = 1" % x
        if self.style == "macro":
            ln = self.emit(ind, "## %s(v%d)" % ("zuse" if kind == "UF" else "zasg", x))
            self.macro_lines[ln] = 2 if kind == "UF" else 5
        elif self.style == "ppfor":
            self.emit(ind, "## for _k=1,1 do")
            ln = self.emit(ind, plain)
            self.emit(ind, "## end")
        else:
            ln = self.emit(ind, plain)
        out += [str(ln), kind, str(x)]

    def emit(self, ind, text):
        self.lines.append("  " * ind + text)
        return len(self.lines)          # 1-based line number of the line just written

    def block(self, b, ind, out):
        out.append("(")
        for s in b:
            self.stmt(s, ind, out)
        out.append(")")

    def stmt(self, s, ind, out):
        t = s[0]
        if t == 'local' and s[1] >= FPBASE:
            # a function-pointer variable (the target of `function vN() ... end`)
            ln = self.emit(ind, "local v%d: function()%s = f0" % (s[1], QUALS[s[2]]))
            out += [str(ln), "L", str(s[1]), str(s[2])]
        elif t == 'funcassign':
            # ids >= 100 are declared functions (`local function f101() end function f101() end` redefines f101,
            # or defines it after a <forwarddecl>), ids in FPBASE.. are function-pointer variables
            ln = self.emit(ind, "function %s%d()" % ("f" if s[1] >= 100 else "v", s[1]))
            out += [str(ln), "FA", str(s[1])]
            self.block(s[2], ind + 1, out)
            self.emit(ind, "end")
        elif t == 'local':
            ln = self.emit(ind, "local v%d%s = 0" % (s[1], QUALS[s[2]]) if s[2] else "local v%d: integer = 0" % s[1])
            out += [str(ln), "L", str(s[1]), str(s[2])]
        elif t == 'assign':
            ln = self.emit(ind, "v%d = 1" % s[1]); out += [str(ln), "A", str(s[1])]
        elif t == 'use':
            ln = self.emit(ind, "sink(v%d)" % s[1]); out += [str(ln), "U", str(s[1])]
        elif t == 'usef':
            self.forced(ind, "UF", s[1], out)
        elif t == 'assignf':
            self.forced(ind, "AF", s[1], out)
        elif t == 'func' and len(s) > 4 and s[4] == 'fwd':
            # forward declaration: the model sees a declared function with an empty body
            ln = self.emit(ind, "local function f%d() <forwarddecl> end" % s[1])
            out += [str(ln), "F", str(s[1]), "0", "(", ")"]
        elif t == 'func':
            ln = self.emit(ind, "local function f%d(%s)" % (s[1], ", ".join("v%d: integer" % p for p in s[2])))
            out += [str(ln), "F", str(s[1]), str(len(s[2]))] + [str(p) for p in s[2]]
            self.block(s[3], ind + 1, out)
            self.emit(ind, "end")
        elif t == 'call':
            ln = self.emit(ind, "f%d(%s)" % (s[1], ", ".join(str(i + 1) for i in range(s[2]))))
            out += [str(ln), "C", str(s[1]), str(s[2])]
        elif t == 'do':
            ln = self.emit(ind, "do"); out += [str(ln), "O"]
            self.block(s[1], ind + 1, out); self.emit(ind, "end")
        elif t == 'if':
            ln = self.emit(ind, "if cond() then"); out += [str(ln), "I"]
            self.block(s[1], ind + 1, out)
            self.emit(ind, "else")
            self.block(s[2], ind + 1, out)
            self.emit(ind, "end")
        elif t == 'while':
            ln = self.emit(ind, "while cond() do"); out += [str(ln), "W"]
            self.block(s[1], ind + 1, out); self.emit(ind, "end")
        elif t == 'repeat':
            ln = self.emit(ind, "repeat"); out += [str(ln), "P"]
            self.block(s[1], ind + 1, out); self.emit(ind, "until cond()")
        elif t == 'for':
            ln = self.emit(ind, "for _i=1,2 do"); out += [str(ln), "R"]
            self.block(s[1], ind + 1, out); self.emit(ind, "end")
        elif t == 'switch':
            ln = self.emit(ind, "switch sel() do"); out += [str(ln), "S", "1" if s[2] else "0", "["]
            vals = s[4] if len(s) > 4 else list(range(1, len(s[1]) + 1))
            for i, b in enumerate(s[1]):
                cl = self.emit(ind, "case %d then" % vals[i])
                out += [str(cl), str(vals[i])]
                self.block(b, ind + 1, out)
            out.append("]")
            if s[2]:
                self.emit(ind, "else")
                self.block(s[3], ind + 1, out)
            else:
                out += ["(", ")"]
            self.emit(ind, "end")
        elif t == 'break':
            ln = self.emit(ind, "break"); out += [str(ln), "B"]
        elif t == 'continue':
            ln = self.emit(ind, "continue"); out += [str(ln), "N"]
        elif t == 'fallthrough':
            ln = self.emit(ind, "fallthrough"); out += [str(ln), "T"]
        elif t == 'label':
            ln = self.emit(ind, "::l%d::" % s[1]); out += [str(ln), "J", str(s[1])]
        elif t == 'goto':
            ln = self.emit(ind, "goto l%d" % s[1]); out += [str(ln), "G", str(s[1])]
        elif t == 'defer':
            ln = self.emit(ind, "defer"); out += [str(ln), "D"]
            self.block(s[1], ind + 1, out); self.emit(ind, "end")
        elif t == 'index':
            ln = self.emit(ind, "do local a: [%d]integer; sink(a[%s]) end" % (s[1], lit(s[2])))
            out += [str(ln), "X", hexz(s[1]), hexz(s[2])]
        elif t == 'conv':
            sink = s[3] if len(s) > 3 else "decl"
            source = s[4] if len(s) > 4 else "lit"
            T = self.type_names[s[1]]
            if source == "frac":
                m = abs(s[2]) % 100000            # any fractional constant: representable in no integral type
                pre, e = "", ("%d.5" % m if s[2] >= 0 else "(-%d.5)" % m)
            else:
                pre, e = conv_source(source, s[2])
            ln = self.emit(ind, conv_sink(sink, T, pre, e))
            if source == "frac":
                out += [str(ln), "VF", str(s[1])]
            else:
                out += [str(ln), "V", str(s[1]), hexz(s[2]), "1" if sink in CONCEPT_SINKS else "0"]
        else:
            raise ValueError(t)


def force_refs(b, rng, prob=1.0):
    """Every use / assignment of a variable becomes its interpolated form (with probability prob)."""
    out = []
    for s in b:
        t = s[0]
        if t == 'use' and rng.random() < prob: out.append(('usef', s[1]))
        elif t == 'assign' and rng.random() < prob: out.append(('assignf', s[1]))
        elif t == 'func': out.append(('func', s[1], s[2], force_refs(s[3], rng, prob)) + tuple(s[4:]))
        elif t == 'funcassign': out.append(('funcassign', s[1], force_refs(s[2], rng, prob)))
        elif t in ('do', 'while', 'repeat', 'for', 'defer'): out.append((t, force_refs(s[1], rng, prob)))
        elif t == 'if': out.append(('if', force_refs(s[1], rng, prob), force_refs(s[2], rng, prob)))
        elif t == 'switch': out.append(('switch', [force_refs(x, rng, prob) for x in s[1]], s[2], force_refs(s[3], rng, prob)) + tuple(s[4:]))
        else: out.append(s)
    return out


def print_program(body, embedding, type_names, style="expr"):
    """Returns (nelua_source, model_text, macro_lines)."""
    p = Printer(type_names, style)
    for l in PRELUDE.strip("\n").split("\n"):
        p.emit(0, l)
    out = []
    if embedding == "toplevel":
        p.emit(0, "do")
        p.block(body, 1, out)
        p.emit(0, "end")
    elif embedding == "nested":
        p.emit(0, "if cond() then")
        p.emit(1, "do")
        p.emit(2, "local filler = 1")
        p.block(body, 2, out)
        p.emit(1, "end")
        p.emit(0, "end")
    elif embedding == "function":
        p.emit(0, "local function host(x: integer)")
        p.block(body, 1, out)
        p.emit(0, "end")
        p.emit(0, "host(1)")
    elif embedding == "poly":
        p.emit(0, "local function host(x: auto)")
        p.block(body, 1, out)
        p.emit(0, "end")
        p.emit(0, "host(1)")
        p.emit(0, "host(true)")
    elif embedding == "generic":
        p.emit(0, "## local make_G = generalize(function(T)")
        p.emit(1, "local GT = @record{v: #[T]#}")
        p.emit(1, "function GT:run()")
        p.block(body, 2, out)
        p.emit(1, "end")
        p.emit(1, "## return GT")
        p.emit(0, "## end)")
        p.emit(0, "local G: type = #[make_G]#")
        p.emit(0, "local g: G(integer)")
        p.emit(0, "g:run()")
    elif embedding == "ppmacro":
        p.emit(0, "local function host(x: integer)")
        p.emit(0, "## local function mac()")
        p.block(body, 1, out)
        p.emit(0, "## end")
        p.emit(0, "## mac()")
        p.emit(0, "end")
        p.emit(0, "host(1)")
    else:
        raise ValueError(embedding)
    return "\n".join(p.lines) + "\n", " ".join(out), p.macro_lines


ERR_RE = re.compile(r"^[^\n:]*:(\d+):(\d+): error: (.*)$", re.M)


def classify(msg):
    m = msg
    if "`break` statement" in m: return "break"
    if "`continue` statement" in m: return "continue"
    if "`fallthrough` statement" in m: return "fallthrough"
    if "already defined" in m and "label" in m: return "labeldup"
    if "no visible label" in m: return "gotonolabel"
    if "cannot mix `goto` and `defer`" in m: return "gotodefer"
    if "`goto` statement cannot jump out of a `defer` block" in m: return "gotodefer"
    if "undeclared symbol" in m: return "undeclared"
    if "attempt to access upvalue" in m: return "upvalue"
    if "cannot assign a constant variable" in m: return "constassign"
    if "expected at most" in m and "arguments" in m: return "arity"
    if "out of range" in m: return "range"
    if "is fractional" in m: return "range"
    if "out of bounds" in m or "cannot index negative" in m: return "index"
    if "but got nil" in m: return "nilarg"
    if "is already used in another case" in m: return "dupcase"
    return "other:" + m[:80]


def parse_result(rc, text):
    """-> ('accept',) or ('reject', line, col, kind, msg) or ('crash', text)"""
    m = ERR_RE.search(text)
    if m:
        return ("reject", int(m.group(1)), int(m.group(2)), classify(m.group(3)), m.group(3))
    if rc == 0:
        return ("accept",)
    return ("crash", text[-400:])


# ------------------------------------------------------------------ random programs
class Gen:
    def __init__(self, rng, ntypes, focus="mixed", allow_last_ft=False):
        self.rng = rng
        self.ntypes = ntypes
        self.focus = focus
        self.allow_last_ft = allow_last_ft
        self.typeinfo = None

    def program(self):
        self.nfun = 100
        self.fun_fd = {}; self.promoted = set(); self.nested_refd = set()
        cx = dict(vars=[(1, 0, 1), (2, 0, 1)], funs=[(100, 1)], labels=[], loop=False, depth=0, fd=1)
        pre = [('local', 1, 0), ('local', 2, 0), ('func', 100, [3], [('use', 3)])]
        return pre + self.block(cx, 3, 7)

    def pick_var(self, cx, want_declared=0.96, assignable=False):
        r = self.rng
        cx = dict(cx, vars=[v for v in cx['vars'] if v[0] < FPBASE])
        if cx['vars'] and r.random() < want_declared:
            # prefer names that are legal here: same function (or comptime), and plain variables for assignment
            good = [v for v in cx['vars'] if (v[2] == cx['fd'] or v[1] == 2) and (not assignable or v[1] == 0)]
            # the most recent declaration of a name shadows the older ones
            good = [v for v in good if [w for w in cx['vars'] if w[0] == v[0]][-1] == v]
            if good and r.random() < 0.93:
                return r.choice(good)[0]
            return r.choice(cx['vars'])[0]
        return r.randint(1, 6) if r.random() < 0.5 else 1

    def block(self, cx, lo, hi, case_ft=None):
        cx = dict(cx, vars=list(cx['vars']), funs=list(cx['funs']), labels=list(cx['labels']))
        n = self.rng.randint(lo, hi)
        b = []
        for _ in range(n):
            b.append(self.stmt(cx))
        return b

    def stmt(self, cx):
        r = self.rng
        f = self.focus
        deep = cx['depth'] >= 3
        w = r.random()
        # weights by focus
        if f == "names" or (f == "mixed" and w < 0.35):
            k = r.random()
            if k < 0.07:
                x = FPBASE + r.randint(0, 3); q = r.choice([0, 0, 1, 2])
                cx['vars'].append((x, q, cx['fd']))
                return ('local', x, q)
            if k < 0.14 and not deep and r.random() < 0.35:
                # `function f() ... end` over a declared function of the SAME function: accepted by design (the
                # function is promoted to a variable).  Region: the function has no parameters, was not referenced
                # from another function body so far, and is never referenced from one afterwards (self.promoted)
                cands = [fid for (fid, ar) in cx['funs'] if ar == 0 and self.fun_fd.get(fid) == cx['fd']
                         and fid not in self.nested_refd and fid not in cx.get('inside', ())]
                if cands:
                    x = r.choice(cands)
                    self.promoted.add(x)
                    icx = dict(cx, loop=False, depth=cx['depth'] + 1, fd=cx['fd'] + 1, labels=[])
                    return ('funcassign', x, self.block(icx, 0, 3))
            if k < 0.14 and not deep:
                fps = [v for v in cx['vars'] if v[0] >= FPBASE]
                x = r.choice(fps)[0] if fps and r.random() < 0.9 else FPBASE + r.randint(0, 3)
                icx = dict(cx, loop=False, depth=cx['depth'] + 1, fd=cx['fd'] + 1, labels=[])
                return ('funcassign', x, self.block(icx, 0, 3))
            if k < 0.25:
                x = r.randint(1, 6); q = r.choice([0, 0, 0, 1, 2])
                cx['vars'].append((x, q, cx['fd']))
                return ('local', x, q)
            if k < 0.40:
                return ('assign', self.pick_var(cx, assignable=True))
            if k < 0.60:
                return ('use', self.pick_var(cx))
            if k < 0.75 and not deep:
                self.nfun += 1
                fid = self.nfun
                ps = [r.randint(1, 6) for _ in range(r.randint(0, 2))]
                cx['funs'].append((fid, len(ps)))
                self.fun_fd[fid] = cx['fd']
                if not ps and r.random() < 0.12:
                    return ('func', fid, [], [], 'fwd')
                icx = dict(cx, loop=False, depth=cx['depth'] + 1, fd=cx['fd'] + 1, labels=[],
                           vars=cx['vars'] + [(p, 0, cx['fd'] + 1) for p in ps])
                return ('func', fid, ps, self.block(icx, 1, 4))
            if k < 0.90:
                if cx['funs'] and r.random() < 0.97:
                    fid, ar = r.choice(cx['funs'])
                    if self.fun_fd.get(fid, cx['fd']) != cx['fd']:
                        if fid in self.promoted:
                            return ('do', [])
                        self.nested_refd.add(fid)
                    n = r.choice([ar, ar, max(0, ar - 1), ar + 1]) if r.random() < 0.25 else ar
                    return ('call', fid, n)
                return ('call', 100 + r.randint(1, 3), 0)
            return self.nest(cx)
        if f == "flow" or (f == "mixed" and w < 0.6):
            k = r.random()
            if k < 0.18:
                return ('break',) if (cx['loop'] or r.random() < 0.08) else ('do', [])
            if k < 0.30:
                return ('continue',) if (cx['loop'] or r.random() < 0.08) else ('do', [])
            if k < 0.32:
                return ('fallthrough',)
            if k < 0.6 and not deep:
                return self.switch(cx)
            return self.nest(cx)
        if f == "labels" or (f == "mixed" and w < 0.85):
            k = r.random()
            if k < 0.2:
                self.nlabel = getattr(self, 'nlabel', 3) + 1
                l = self.nlabel if r.random() < 0.85 else r.randint(1, 3)
                cx['labels'].append(l)
                return ('label', l)
            if k < 0.35:
                if cx['labels'] and r.random() < 0.9:
                    return ('goto', r.choice(cx['labels']))
                return ('goto', r.randint(1, 3)) if r.random() < 0.3 else ('do', [])
            if k < 0.5:
                # forward jump pattern: goto l ... ::l::   (sometimes across a defer / out of a nested block)
                self.nlabel = getattr(self, 'nlabel', 3) + 1
                l = self.nlabel
                mid = []
                for _ in range(r.randint(0, 2)):
                    mid.append(('defer', []) if r.random() < 0.2 else ('use', self.pick_var(cx)) if cx['vars'] else ('do', []))
                g = ('goto', l)
                if r.random() < 0.4:
                    g = r.choice([('do', [g]), ('if', [g], []), ('while', [g])])
                return ('do', [g] + mid + [('label', l)])
            if k < 0.68 and not deep:
                return ('defer', self.block(dict(cx, depth=cx['depth'] + 1), 0, 2))
            return self.nest(cx)
        # consts
        k = r.random()
        if k < 0.5:
            ln = r.choice([1, 2, 4, 8, 255, 256, 65536])
            u = r.random()
            if u < 0.6: kk = r.choice([0, ln - 1, r.randint(0, ln - 1)])
            elif u < 0.75: kk = r.choice([ln, ln + 1, -1])
            else: kk = r.choice(LATTICE)          # the whole boundary lattice, up to 2^64-1
            return ('index', ln, kk)
        t = r.randrange(self.ntypes)
        bits, signed = self.typeinfo[t]
        lo_, hi_ = (-(1 << (bits - 1)), (1 << (bits - 1)) - 1) if signed else (0, (1 << bits) - 1)
        u = r.random()
        if u < 0.6: v = r.choice([lo_, hi_, 0, 1, r.randint(lo_, hi_)])
        elif u < 0.75: v = r.choice([lo_ - 1, hi_ + 1, -1])
        else: v = r.choice(LATTICE)
        v = max(-(1 << 63), min((1 << 64) - 1, v))
        return ('conv', t, v, r.choice(SINKS), r.choice(SOURCES))

    def nest(self, cx):
        r = self.rng
        if cx['depth'] >= 3:
            return ('do', [])
        icx = dict(cx, depth=cx['depth'] + 1)
        k = r.random()
        if k < 0.25: return ('do', self.block(icx, 1, 3))
        if k < 0.45: return ('if', self.block(icx, 1, 3), self.block(icx, 0, 2))
        if k < 0.65: return ('while', self.block(dict(icx, loop=True), 1, 3))
        if k < 0.75: return ('repeat', self.block(dict(icx, loop=True), 1, 3))
        if k < 0.85: return ('for', self.block(dict(icx, loop=True), 1, 3))
        return self.switch(cx)

    def switch(self, cx):
        r = self.rng
        icx = dict(cx, depth=cx['depth'] + 1)
        n = r.randint(1, 3)
        els = r.random() < 0.5
        blocks = []
        for i in range(n):
            b = self.block(icx, 0, 2)
            last = (i == n - 1)
            if r.random() < 0.45:
                if last and not els and r.random() < 0.7:
                    pass
                else:
                    b.append(('fallthrough',))
            blocks.append(b)
        d = self.block(icx, 0, 2) if els else []
        vals = r.sample(range(1, 9), n)
        if n >= 2 and r.random() < 0.12:
            vals[r.randrange(1, n)] = vals[0]          # duplicate case value
        return ('switch', blocks, els, d, vals)


def has_last_case_ft(b):
    """a switch without else, with >= 2 cases, whose last case block contains a direct fallthrough"""
    for s in b:
        t = s[0]
        subs = []
        if t == 'switch':
            if not s[2] and len(s[1]) >= 2 and any(x[0] == 'fallthrough' for x in s[1][-1]):
                return True
            subs = list(s[1]) + [s[3]]
        elif t == 'func': subs = [s[3]]
        elif t == 'funcassign': subs = [s[2]]
        elif t in ('do', 'while', 'repeat', 'for', 'defer'): subs = [s[1]]
        elif t == 'if': subs = [s[1], s[2]]
        if any(has_last_case_ft(x) for x in subs):
            return True
    return False


# ------------------------------------------------------------------ targeted near-miss programs
def targeted(rng, ntypes=1):
    """One program aimed at a case split of the proofs: for every rule a shape that just obeys it and
    shapes that just break it, wrapped in a random context (do / if / loop / function / defer / case)."""
    r = rng
    L = lambda n: ('label', n)
    G = lambda n: ('goto', n)
    D = lambda *b: ('defer', list(b))
    U = ('use', 1)
    FT = ('fallthrough',)
    pre = [('local', 1, 0), ('local', 2, 0), ('func', 100, [3], [('use', 3)])]

    def sw(blocks, els=False, d=None):
        return ('switch', [list(b) for b in blocks], els, list(d or []))

    flow = [
        [('break',)], [('continue',)],
        [('while', [('break',)])], [('repeat', [('continue',)])], [('for', [('if', [('break',)], [('continue',)])])],
        [('while', [('func', 101, [], [('break',)])])], [('while', [('func', 101, [], [('while', [('break',)])])])],
        [('while', [('defer', [('break',)])])], [('defer', [('break',)])],
        [('while', [sw([[('break',)], [('continue',)]])])], [sw([[('break',)]])],
        [sw([[U, FT], [U]])], [sw([[FT, U], [U]])], [sw([[FT, FT], [U]])], [sw([[U, FT, U], [U]])],
        [sw([[('if', [FT], [])], [U]])], [sw([[('do', [FT])], [U]])],
        [sw([[U], [U, FT]], True, [U])], [sw([[U, FT]], True, [U])], [sw([[U, FT]])],
        [sw([[U, FT], [U, FT], [U]])], [sw([[U]], True, [FT])], [sw([[U], [U, FT]])], [sw([[U, FT], [U], [U, FT]])],
        [sw([[U], [FT]])],
        [sw([[U], [U]]) + ([1, 1],)], [sw([[U], [U], [U]]) + ([3, 5, 3],)], [sw([[U], [U], [U]], True, [U]) + ([2, 7, 7],)],
        [sw([[sw([[U], [U]]) + ([4, 4],)], [U]]) + ([4, 5],)], [sw([[sw([[U], [U]]) + ([1, 2],)], [U]]) + ([1, 2],)], [sw([[U]], True, [U, FT])],
        [FT], [('while', [FT])], [sw([[('func', 101, [], [FT])], [U]])],
        [sw([[sw([[U, FT], [U]]), FT], [U]])], [sw([[sw([[U, FT]]), FT], [U]])],
    ]
    labels = [
        [L(1), L(1)], [L(1), ('do', [L(1)])], [('do', [L(1)]), L(1)], [('do', [L(1)]), ('do', [L(1)])],
        [L(1), ('func', 101, [], [L(1)])], [L(1), ('while', [('if', [L(1)], [])])], [L(1), L(2), ('do', [L(2)])],
        [L(1), ('do', [('do', [L(1)])])], [L(1), ('defer', [L(1)])],
        [L(1), G(1)], [L(1), D(), G(1)], [D(), L(1), G(1)], [L(1), G(1), D()], [L(1), ('if', [G(1)], []), D()],
        [G(1), L(1)], [G(1), D(), L(1)], [G(1), L(1), D()], [D(), G(1), L(1)],
        [('do', [G(1)]), L(1)], [('do', [D(), G(1)]), L(1)], [('do', [G(1), D()]), L(1)], [('do', [G(1)]), D(), L(1)],
        [L(1), ('do', [D(), G(1)])], [L(1), ('do', [G(1), D()])], [L(1), ('do', [('do', [D()]), G(1)])],
        [L(1), ('while', [('if', [G(1)], [])])], [L(1), ('while', [D(), ('if', [G(1)], [])])],
        [G(1)], [('do', [L(1)]), G(1)], [G(1), ('do', [L(1)])], [L(1), ('func', 101, [], [G(1)])],
        [('func', 101, [], [L(1)]), G(1)],
        [D(L(1), G(1))], [D(G(1), L(1))], [D(G(1), D(), L(1))], [L(1), D(G(1))], [D(('do', [G(1)]), L(1))],
        [L(1), ('do', [L(2), G(1), G(2)])], [G(2), L(1), ('do', [G(1)]), L(2)],
        [L(1), ('do', [G(1), L(1)])], [('do', [G(1), L(1)]), L(1)],
        [sw([[L(1), G(1)], [G(1)]])], [('while', [L(1), ('if', [('break',)], [G(1)])])],
    ]
    names = [
        [('local', 4, 1), ('assign', 4)], [('local', 4, 2), ('assign', 4)], [('local', 4, 0), ('assign', 4)],
        [('local', 4, 1), ('do', [('local', 4, 0), ('assign', 4)])], [('local', 4, 0), ('do', [('local', 4, 1)]), ('assign', 4)],
        [('local', 4, 0), ('do', [('local', 4, 1), ('assign', 4)])],
        [('use', 5)], [('use', 5), ('local', 5, 0)], [('do', [('local', 5, 0)]), ('use', 5)], [('assign', 5)],
        [('local', 4, 0), ('func', 101, [], [('use', 4)])], [('local', 4, 1), ('func', 101, [], [('use', 4)])],
        [('local', 4, 2), ('func', 101, [], [('use', 4)])], [('local', 4, 0), ('func', 101, [], [('assign', 4)])],
        [('local', 4, 0), ('func', 101, [4], [('use', 4)])], [('local', 4, 0), ('func', 101, [], [('local', 4, 0), ('use', 4)])],
        [('func', 101, [4], [('func', 102, [], [('use', 4)])])], [('func', 101, [4], [('func', 102, [], [('call', 101, 1)])])],
        [('func', 101, [4], [('use', 4), ('assign', 4)])], [('func', 101, [], [('call', 101, 0)])],
        [('func', 101, [4, 5], []), ('call', 101, 2)], [('func', 101, [4, 5], []), ('call', 101, 3)],
        [('func', 101, [], []), ('call', 101, 1)], [('func', 101, [4], []), ('call', 101, 0)],
        [('call', 101, 0), ('func', 101, [], [])], [('do', [('func', 101, [], [])]), ('call', 101, 0)],
        [('func', 101, [], [('func', 102, [], [('call', 100, 1)])])], [('func', 101, [], [('use', 1)])],
        [('local', 4, 0), ('while', [('func', 101, [], [('use', 4)])])], [('local', 4, 0), ('defer', [('use', 4), ('assign', 4)])],
        [('local', 4, 2), ('func', 101, [], [('func', 102, [], [('use', 4)])])],
        [('local', 50, 0), ('funcassign', 50, [])], [('local', 50, 1), ('funcassign', 50, [])], [('local', 50, 2), ('funcassign', 50, [])],
        [('funcassign', 51, [])], [('funcassign', 50, []), ('local', 50, 0)],
        # a declared / forward declared function is redefinable in its own function (1fc2b5c exemption)
        [('func', 101, [], []), ('funcassign', 101, [])], [('func', 101, [], []), ('funcassign', 101, []), ('funcassign', 101, []), ('call', 101, 0)],
        [('func', 102, [], [], 'fwd'), ('funcassign', 102, [])], [('func', 102, [], [], 'fwd'), ('call', 102, 0), ('funcassign', 102, []), ('funcassign', 102, []), ('call', 102, 0)],
        [('func', 101, [], []), ('do', [('funcassign', 101, [])]), ('defer', [('funcassign', 101, [])])], [('funcassign', 101, [])],
        [('funcassign', 101, []), ('func', 101, [], [])], [('local', 4, 0), ('func', 101, [], []), ('funcassign', 101, [('use', 4)])],
        [('local', 4, 2), ('func', 102, [], [], 'fwd'), ('funcassign', 102, [('use', 4)])], [('func', 101, [], []), ('funcassign', 101, [('break',)])],
        [('func', 101, [], []), ('while', [('funcassign', 101, [('label', 1), ('goto', 1)])])], [('do', [('func', 101, [], [])]), ('funcassign', 101, [])],
        [('func', 102, [], [], 'fwd'), ('call', 102, 1), ('funcassign', 102, [])],
        [('local', 50, 0), ('func', 101, [], [('funcassign', 50, [])])], [('local', 50, 0), ('funcassign', 50, [('funcassign', 50, [])])],
        [('local', 50, 0), ('local', 4, 0), ('funcassign', 50, [('use', 4)])], [('local', 50, 0), ('local', 4, 2), ('funcassign', 50, [('use', 4)])],
        [('local', 50, 1), ('do', [('local', 50, 0), ('funcassign', 50, [])])], [('local', 50, 0), ('do', [('local', 50, 1)]), ('funcassign', 50, [])],
        [('local', 50, 0), ('while', [('funcassign', 50, [('break',)])])], [('local', 50, 0), ('funcassign', 50, [('while', [('break',)]), ('label', 1), ('goto', 1)])],
    ]
    consts = [[('index', ln, k)] for ln in (1, 4, 256) for k in LATTICE] + \
             [[('conv', t, v, sk, sr)] for t in range(ntypes) for v in LATTICE[::3] for sk in SINKS for sr in SOURCES[:3]] + \
             [[('conv', t, v, sk, sr)] for t in range(ntypes) for v in (0, 1, 200, 300, -1, 70000) for sk in SINKS for sr in SOURCES]
    fam = r.choice(["flow", "flow", "labels", "labels", "names", "names", "consts", "consts"])
    if fam == "names" and r.random() < 0.4:
        # function definition over an existing name (variable, function, forward declaration)
        core = r.choice([c for c in names if any(x[0] == 'funcassign' or (x[0] in ('do', 'while', 'func', 'defer') and 'funcassign' in repr(x)) for x in c)])
    elif fam == "flow": core = r.choice(flow)
    elif fam == "labels": core = r.choice(labels)
    elif fam == "names": core = r.choice(names)
    else: core = r.choice(consts)
    core = [x for x in core]
    # random context
    body = core
    for _ in range(r.randint(0, 2)):
        k = r.random()
        if k < 0.2: body = [('do', body)]
        elif k < 0.35: body = [('if', body, [])]
        elif k < 0.45: body = [('if', [], body)]
        elif k < 0.6: body = [('while', body)]
        elif k < 0.7: body = [('func', 110 + r.randint(0, 5), [], body)]
        elif k < 0.8: body = [sw([body, [U]])]
        elif k < 0.87: body = [sw([[U]], True, body)]
        elif k < 0.93: body = [('defer', body)]
        else: body = [U] + body + [U]
    return pre + body, fam
