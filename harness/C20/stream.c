/* C harness for property C20: compiles the repository's src/hasher.c INTO this translation unit
   (-DHASHER_C="<REPO>/src/hasher.c"), so that its static functions can be driven directly:

     S <outlen> <keyhex|-> <t0hex> <t1hex> <chunkhex|->...   blake2b_init; input_offset := {t0,t1}; one blake2b_update
                                                              per chunk (exercises the byte-alignment loop and, with t0 near
                                                              2^64, the carry into input_offset[1]); blake2b_final
     B <outlen> <keyhex|-> <msghex|->                         the one-shot static blake2b()
     E <hex|->   /  D <hex|->                                 base58_encode / base58_decode called exactly as lbase58_encode /
                                                              lbase58_decode call them (same buffer sizes, same length tests)
   One answer line per command: "ok <hex|->" or "err <message>".  Built with -fsanitize=address,undefined: any access
   outside input[]/buf[]/outi[]/digest[] aborts the process (the driver then reports the first unanswered command). */
#include <stdio.h>
#include <stdlib.h>
#include <string.h>
#include HASHER_C

/* hasher.c also defines the Lua entry points; they are not called here.  Stubs satisfy the linker. */
#define STUB { fputs("stub called\n", stderr); abort(); }
const char *luaL_checklstring(lua_State *L, int a, size_t *l) STUB
lua_Integer luaL_optinteger(lua_State *L, int a, lua_Integer d) STUB
const char *luaL_optlstring(lua_State *L, int a, const char *d, size_t *l) STUB
int luaL_error(lua_State *L, const char *fmt, ...) STUB
const char *lua_pushlstring(lua_State *L, const char *s, size_t l) STUB
const char *lua_pushstring(lua_State *L, const char *s) STUB
void lua_pushnil(lua_State *L) STUB
const char *lua_pushfstring(lua_State *L, const char *fmt, ...) STUB
void luaL_checkversion_(lua_State *L, lua_Number v, size_t sz) STUB
void lua_createtable(lua_State *L, int a, int b) STUB
void luaL_setfuncs(lua_State *L, const luaL_Reg *l, int n) STUB

static int hexv(int c) { return c <= '9' ? c - '0' : (c | 32) - 'a' + 10; }
static size_t unhex(const char *s, uint8_t *out) {
  size_t n = 0;
  if (s[0] == '-' && s[1] == 0) return 0;
  for (; s[0] && s[1]; s += 2) out[n++] = (uint8_t)(hexv(s[0]) * 16 + hexv(s[1]));
  return n;
}
static void puthex(const uint8_t *b, size_t n) {
  size_t i;
  if (n == 0) { fputs("ok -\n", stdout); return; }
  fputs("ok ", stdout);
  for (i = 0; i < n; i++) printf("%02x", b[i]);
  fputc('\n', stdout);
}

#define MAXTOK 4096
int main(void) {
  static char line[1 << 20];
  static uint8_t a[1 << 19], k[1 << 10];
  setvbuf(stdout, NULL, _IOLBF, 0);
  while (fgets(line, sizeof line, stdin)) {
    char *tok[MAXTOK]; int nt = 0; char *p = strtok(line, " \r\n");
    while (p && nt < MAXTOK) { tok[nt++] = p; p = strtok(NULL, " \r\n"); }
    if (nt == 0) continue;
    if (tok[0][0] == 'S' && nt >= 5) {
      blake2b_ctx ctx; uint8_t digest[64]; int i;
      size_t outlen = (size_t)strtoul(tok[1], NULL, 10);
      size_t kl = unhex(tok[2], k);
      if (outlen < 1 || outlen > 64 || kl > 64) { fputs("err precondition of blake2b_init (checked by lblake2b)\n", stdout); continue; }
      blake2b_init(&ctx, outlen, k, kl);
      ctx.input_offset[0] = strtoull(tok[3], NULL, 16);
      ctx.input_offset[1] = strtoull(tok[4], NULL, 16);
      for (i = 5; i < nt; i++) {
        size_t n = unhex(tok[i], a);
        uint8_t *m = malloc(n ? n : 1);            /* exact-size heap copy: over-reads are seen by ASan */
        memcpy(m, a, n);
        blake2b_update(&ctx, m, n);
        free(m);
      }
      blake2b_final(&ctx, digest);
      puthex(digest, outlen);
    } else if (tok[0][0] == 'B' && nt >= 4) {
      uint8_t digest[64];
      size_t outlen = (size_t)strtoul(tok[1], NULL, 10);
      size_t kl = unhex(tok[2], k);
      size_t n = unhex(tok[3], a);
      uint8_t *m;
      if (outlen < 1 || outlen > 64 || kl > 64) { fputs("err precondition of blake2b() (checked by lblake2b)\n", stdout); continue; }
      m = malloc(n ? n : 1);
      memcpy(m, a, n);
      blake2b(digest, outlen, k, kl, m, n);
      free(m);
      puthex(digest, outlen);
    } else if (tok[0][0] == 'E' && nt >= 2) {        /* as lbase58_encode */
      size_t bln = unhex(tok[1], a), eln;
      char buf[BASE58_DECODE_MAXLEN];
      if (bln == 0) { puthex(a, 0); continue; }
      if (bln > BASE58_ENCODE_MAXLEN) { fputs("err string too long\n", stdout); continue; }
      { char *m = malloc(bln); memcpy(m, a, bln);
        eln = BASE58_DECODE_MAXLEN;
        if (!base58_encode(buf, &eln, m, bln)) fputs("err base58 encode error\n", stdout);
        else puthex((uint8_t *)buf, eln - 1);
        free(m); }
    } else if (tok[0][0] == 'D' && nt >= 2) {        /* as lbase58_decode */
      size_t eln = unhex(tok[1], a), bln;
      char buf[BASE58_DECODE_MAXLEN];
      if (eln == 0) { puthex(a, 0); continue; }
      if (eln > BASE58_DECODE_MAXLEN) { fputs("err string too long\n", stdout); continue; }
      { char *m = malloc(eln + 1); memcpy(m, a, eln); m[eln] = 0;
        bln = BASE58_DECODE_MAXLEN;
        if (!base58_decode(buf, &bln, m, eln)) fputs("err b58decode error\n", stdout);
        else puthex((uint8_t *)buf + BASE58_DECODE_MAXLEN - bln, bln);
        free(m); }
    } else {
      fputs("?unknown-op\n", stdout);
    }
  }
  return 0;
}
