-- Runs the same case file as the extracted model against the real module: require 'hasher'
-- (src/hasher.c compiled into the interpreter) and nelua.utils.stringer.  One result line per case.
local hasher = require 'hasher'
local stringer = require 'nelua.utils.stringer'

local function unhex(s)
  if s == '-' then return '' end
  return (s:gsub('%x%x', function(h) return string.char(tonumber(h, 16)) end))
end
local function hex(s)
  if #s == 0 then return '-' end
  return (s:gsub('.', function(c) return string.format('%02x', c:byte()) end))
end
local function clean(msg)
  msg = tostring(msg):gsub('\n.*', '')
  msg = msg:gsub('^[^:]*:%d+: ', '')
  return msg
end
local function show(ok, r, e)
  if not ok then return 'err ' .. clean(r) end
  if r == nil then return 'err ' .. clean(e) end
  if type(r) ~= 'string' then return 'err non-string result ' .. type(r) end
  return 'ok ' .. hex(r)
end

-- the sanitizer stream wants every answered case on stdout before a possible abort
if os.getenv('C20_LINEBUF') then io.stdout:setvbuf('line') end

for line in io.lines() do
  local w = {}
  for tok in line:gmatch('%S+') do w[#w+1] = tok end
  if #w > 0 then
    local op = w[1]
    local res
    if op == 'B' then
      local key = nil
      if w[3] ~= '-' then key = unhex(w[3]) end
      res = show(pcall(hasher.blake2b, unhex(w[4]), math.tointeger(tonumber(w[2])), key))
    elseif op == 'b' then      -- default digest length, no key argument at all
      res = show(pcall(hasher.blake2b, unhex(w[2])))
    elseif op == 'K' then      -- key given as the empty string (not nil)
      res = show(pcall(hasher.blake2b, unhex(w[3]), math.tointeger(tonumber(w[2])), ''))
    elseif op == 'E' then
      res = show(pcall(hasher.base58encode, unhex(w[2])))
    elseif op == 'D' then
      res = show(pcall(hasher.base58decode, unhex(w[2])))
    elseif op == 'h' then
      res = show(pcall(stringer.hash, unhex(w[2])))
    elseif op == 'H' then
      local key = nil
      if w[3] ~= '-' then key = unhex(w[3]) end
      res = show(pcall(stringer.hash, unhex(w[4]), math.tointeger(tonumber(w[2])), key))
    else
      res = '?unknown-op'
    end
    io.write(res, '\n')
  end
end
