/* C19 harness: drives REPO/src/srpmalloc/srpmalloc.c exactly as the bundled Lua state does
 * (src/lua/lua.c L_alloc: nsize==0 -> rpfree(ptr); else rpaligned_realloc(ptr,16,nsize,osize,0)),
 * with a shadow map of the live blocks.
 *
 * Build:  cc -O1 -DSRPMALLOC_C='"<repo>/src/srpmalloc/srpmalloc.c"' [-DLALLOC_ALIGN=16 -DLALLOC_FLAGS=0] harness.c
 * (the allocator source is #included so that the private span header and the size class table
 * can be read; nothing of it is modified.)
 *
 * stdin commands (one per line):
 *   T                         dump constants (K name value) and the size class table (C i bs bc idx)
 *   A slot nsize              one L_alloc call on slot (osize = current size of the slot, or a small
 *                             type tag when the slot is empty, as lua does)
 *   G seed n nslots profile   n pseudo-random L_alloc calls (profile 0 = mixed, 1 = small/medium heavy,
 *                             2 = large/huge heavy, 3 = boundary sizes)
 *   X hexsize                 L_alloc(NULL,0,size) in a forked child, block untouched: prints null/nonnull and the bytes mapped for it
 *   V                         verify the fill pattern of every live block
 *   F                         free all slots, rpmalloc_finalize, print the map/unmap balance
 * With argv[1] == "trace" every L_alloc call prints
 *   O op slot osize nsize spanno offset usable size_class block_size block_count span_count inplace
 * Failures of the property oracle print   FAIL <kind> op=<n> ...   and are counted in the summary (S ...).
 */
#define _GNU_SOURCE
#include <stdio.h>
#include <stdlib.h>
#include <string.h>
#include <stdint.h>
#include <inttypes.h>
#include <unistd.h>
#include <sys/wait.h>

#ifndef SRPMALLOC_C
#error "define SRPMALLOC_C"
#endif
#include SRPMALLOC_C

#ifndef LALLOC_ALIGN
#define LALLOC_ALIGN 16
#endif
#ifndef LALLOC_FLAGS
#define LALLOC_FLAGS 0
#endif

/* ---- L_alloc, verbatim shape of src/lua/lua.c ---- */
static void *L_alloc(void *ud, void *ptr, size_t osize, size_t nsize) {
  (void)ud;
  if (nsize == 0) {
    rpfree(ptr);
    return NULL;
  }
  else
    return rpaligned_realloc(ptr, LALLOC_ALIGN, nsize, osize, LALLOC_FLAGS);
}

/* ---- map / unmap accounting through the configuration hooks ---- */
#define MAXREG 65536
static struct { void *addr; size_t size; } regions[MAXREG];
static size_t nregions;
static uint64_t map_calls, unmap_release_calls, unmap_partial_calls, mapped_bytes, released_bytes, map_errors;

static void *hook_map(size_t size, size_t *offset) {
  void *p = _rpmalloc_mmap_os(size, offset);
  if (p) {
    map_calls++; mapped_bytes += size;
    if (nregions < MAXREG) { regions[nregions].addr = p; regions[nregions].size = size; nregions++; }
    else map_errors++;
    if (size >= _memory_span_size && ((uintptr_t)p & (_memory_span_size - 1))) { printf("FAIL map-unaligned %p\n", p); map_errors++; }
  }
  return p;
}
static void hook_unmap(void *address, size_t size, size_t offset, size_t release) {
  if (release) {
    size_t i;
    unmap_release_calls++; released_bytes += release;
    for (i = 0; i < nregions; i++) if (regions[i].addr == address) break;
    if (i == nregions) { printf("FAIL unmap-unknown-region %p release=%zu\n", address, release); map_errors++; }
    else {
      if (regions[i].size != release) { printf("FAIL unmap-size-mismatch %p mapped=%zu release=%zu\n", address, regions[i].size, release); map_errors++; }
      regions[i] = regions[--nregions];
    }
  } else unmap_partial_calls++;
  _rpmalloc_unmap_os(address, size, offset, release);
}

/* ---- shadow map ---- */
#define MAXSLOT 65536
typedef struct { unsigned char *p; size_t size; uint32_t seed; } slot_t;
static slot_t slots[MAXSLOT];
static uint64_t opno, nfail, serial;
static int trace;
static uint64_t st_alloc, st_free, st_inplace, st_moved, st_regime[4], st_bytes_checked;

static inline uint64_t patw(uint32_t seed, size_t w) {
  uint64_t x = ((uint64_t)seed << 32 | (uint32_t)w) * 0x9E3779B97F4A7C15ull + (uint64_t)(w >> 32);
  return x ^ (x >> 29);
}
static inline unsigned char pat(uint32_t seed, size_t i) { return (unsigned char)(patw(seed, i >> 3) >> ((i & 7) * 8)); }
/* blocks are 16-byte aligned (checked before any access), so whole words are compared where possible */
static void fill(slot_t *s, size_t from, size_t to) {
  size_t i = from;
  for (; i < to && (i & 7); i++) s->p[i] = pat(s->seed, i);
  for (; i + 8 <= to; i += 8) { uint64_t w = patw(s->seed, i >> 3); memcpy(s->p + i, &w, 8); }
  for (; i < to; i++) s->p[i] = pat(s->seed, i);
}
static long verify(const unsigned char *p, uint32_t seed, size_t n) {
  size_t i = 0;
  st_bytes_checked += n;
  for (; i + 8 <= n; i += 8) { uint64_t w; memcpy(&w, p + i, 8); if (w != patw(seed, i >> 3)) break; }
  for (; i < n; i++) if (p[i] != pat(seed, i)) return (long)i;
  return -1;
}

/* occupancy: per 64 KiB span number, either a bitmap of block indices (small/medium) or an owner (large/huge) */
typedef struct occ { struct occ *next; uintptr_t spanno; int kind; uint32_t live; uint32_t bs; uint64_t bits[64]; } occ_t;
#define OCCB 8192
static occ_t *occtab[OCCB];
static occ_t *occ_find(uintptr_t sn, int create) {
  occ_t **b = &occtab[(sn * 2654435761u) % OCCB];
  for (occ_t *o = *b; o; o = o->next) if (o->spanno == sn) return o;
  if (!create) return 0;
  occ_t *o = (occ_t *)calloc(1, sizeof(occ_t));
  o->spanno = sn; o->next = *b; *b = o; return o;
}
static void occ_del(uintptr_t sn) {
  occ_t **b = &occtab[(sn * 2654435761u) % OCCB];
  for (; *b; b = &(*b)->next) if ((*b)->spanno == sn) { occ_t *o = *b; *b = o->next; free(o); return; }
}

/* flushed at once: a corrupted allocator may crash or hang right after the first failure */
#define FAILF(...) do { nfail++; if (nfail <= 20) { printf("FAIL "); printf(__VA_ARGS__); printf("\n"); fflush(stdout); } } while (0)

/* span layer, observable consequences of the invariant of coq/C19/ProofsSpans.v: the span of a live
   block lies inside a mapping that is still mapped, whose master still counts it in remaining_spans */
static void check_span_layer(span_t *span, int slot) {
  if (span->size_class == SIZE_CLASS_HUGE) return;   /* mapped on its own, no master */
  span_t *master = (span->flags & SPAN_FLAG_MASTER) ? span
                 : (span_t *)((char *)span - (size_t)span->offset_from_master * _memory_span_size);
  size_t i;
  for (i = 0; i < nregions; i++) if (regions[i].addr == (void *)master) break;
  if (i == nregions) { FAILF("span-not-in-a-mapped-region op=%" PRIu64 " slot=%d span=%p master=%p", opno, slot, (void *)span, (void *)master); return; }
  size_t cnt = span->span_count;
  if ((char *)span + cnt * _memory_span_size > (char *)master + regions[i].size)
    FAILF("span-exceeds-its-region op=%" PRIu64 " slot=%d span_count=%zu region=%zu", opno, slot, cnt, regions[i].size);
  if (!(master->flags & SPAN_FLAG_MASTER) || (size_t)master->total_spans * _memory_span_size != regions[i].size)
    FAILF("master-span-corrupted op=%" PRIu64 " slot=%d total_spans=%u region=%zu", opno, slot, master->total_spans, regions[i].size);
  if (master->remaining_spans < (int32_t)cnt)
    FAILF("remaining-spans-below-live-span op=%" PRIu64 " slot=%d remaining=%d span_count=%zu", opno, slot, master->remaining_spans, cnt);
}

/* property oracle for one returned block; registers it in the occupancy map */
static void check_new_block(int slot, unsigned char *p, size_t nsize, int reg) {
  uintptr_t a = (uintptr_t)p;
  if (a & 15) FAILF("misaligned op=%" PRIu64 " slot=%d nsize=%zu ptr=%p", opno, slot, nsize, (void *)p);
  size_t us = rpmalloc_usable_size(p);
  if (us < nsize) FAILF("usable-too-small op=%" PRIu64 " slot=%d nsize=%zu usable=%zu", opno, slot, nsize, us);
  span_t *span = (span_t *)(a & _memory_span_mask);
  uintptr_t sn = (uintptr_t)span >> _memory_span_size_shift;
  check_span_layer(span, slot);
  if (span->size_class < SIZE_CLASS_COUNT) {
    size_t off = (size_t)(a - (uintptr_t)span);
    uint32_t bs = span->block_size, bc = span->block_count;
    if (off < SPAN_HEADER_SIZE || bs == 0 || (off - SPAN_HEADER_SIZE) % bs) { FAILF("bad-block-offset op=%" PRIu64 " slot=%d nsize=%zu off=%zu bs=%u", opno, slot, nsize, off, bs); return; }
    size_t idx = (off - SPAN_HEADER_SIZE) / bs;
    if (idx >= bc || SPAN_HEADER_SIZE + (idx + 1) * (size_t)bs > _memory_span_size) FAILF("block-outside-span op=%" PRIu64 " slot=%d idx=%zu bc=%u bs=%u", opno, slot, idx, bc, bs);
    if (bs < nsize) FAILF("block-too-small op=%" PRIu64 " slot=%d nsize=%zu bs=%u class=%u", opno, slot, nsize, bs, span->size_class);
    if (bs != _memory_size_class[span->size_class].block_size || bc != _memory_size_class[span->size_class].block_count)
      FAILF("span-class-mismatch op=%" PRIu64 " class=%u", opno, span->size_class);
    if (reg) {
      occ_t *o = occ_find(sn, 1);
      if (o->kind == 2) FAILF("overlap-with-large op=%" PRIu64 " slot=%d span=%" PRIxPTR, opno, slot, sn);
      else {
        if (o->kind == 1 && o->bs != bs) FAILF("span-blocksize-changed-while-live op=%" PRIu64 " span=%" PRIxPTR " %u->%u", opno, sn, o->bs, bs);
        o->kind = 1; o->bs = bs;
        if (idx < 4096) {
          if (o->bits[idx >> 6] & (1ull << (idx & 63))) FAILF("block-handed-out-twice op=%" PRIu64 " slot=%d nsize=%zu span=%" PRIxPTR " idx=%zu bs=%u", opno, slot, nsize, sn, idx, bs);
          else { o->bits[idx >> 6] |= 1ull << (idx & 63); o->live++; }
        }
      }
    }
  } else {
    if (a != (uintptr_t)span + SPAN_HEADER_SIZE) FAILF("large-not-at-header op=%" PRIu64 " slot=%d ptr=%p", opno, slot, (void *)p);
    size_t bytes = (span->size_class == SIZE_CLASS_LARGE) ? (size_t)span->span_count * _memory_span_size : (size_t)span->span_count * _memory_page_size;
    if (bytes < nsize + SPAN_HEADER_SIZE || bytes - SPAN_HEADER_SIZE < nsize) FAILF("large-too-small op=%" PRIu64 " slot=%d nsize=%zu bytes=%zu", opno, slot, nsize, bytes);
    if (span->size_class == SIZE_CLASS_LARGE && span->span_count > LARGE_CLASS_COUNT) FAILF("large-span-count op=%" PRIu64 " count=%u", opno, span->span_count);
    if (reg) {
      size_t ns = (bytes + _memory_span_size - 1) >> _memory_span_size_shift;
      for (size_t k = 0; k < ns; k++) {
        occ_t *o = occ_find(sn + k, 1);
        if (o->kind) FAILF("overlap-large op=%" PRIu64 " slot=%d span=%" PRIxPTR " kind=%d", opno, slot, sn + k, o->kind);
        o->kind = 2; o->live = (uint32_t)(k == 0 ? ns : 0);
      }
    }
  }
}

static void unregister_block(unsigned char *p) {
  uintptr_t a = (uintptr_t)p;
  span_t *span = (span_t *)(a & _memory_span_mask);
  uintptr_t sn = (uintptr_t)span >> _memory_span_size_shift;
  occ_t *o = occ_find(sn, 0);
  if (!o) { FAILF("shadow-lost op=%" PRIu64 " ptr=%p", opno, (void *)p); return; }
  if (o->kind == 1) {
    size_t idx = (a - (uintptr_t)span - SPAN_HEADER_SIZE) / o->bs;
    if (idx < 4096) { o->bits[idx >> 6] &= ~(1ull << (idx & 63)); o->live--; }
    if (!o->live) occ_del(sn);
  } else {
    size_t ns = o->live;
    for (size_t k = 0; k < ns; k++) occ_del(sn + k);
  }
}

static int regime_of(size_t n) {
  if (n <= SMALL_SIZE_LIMIT) return 0;
  if (n <= _memory_medium_size_limit) return 1;
  if (n <= LARGE_SIZE_LIMIT) return 2;
  return 3;
}

static void do_lalloc(int slot, size_t nsize, size_t tag) {
  slot_t *s = &slots[slot];
  unsigned char *old = s->p;
  size_t osize = old ? s->size : tag;
  opno++;
  if (old) {
    long bad = verify(old, s->seed, s->size);
    if (bad >= 0) FAILF("content-corrupted-while-live op=%" PRIu64 " slot=%d size=%zu at=%ld ptr=%p", opno, slot, s->size, bad, (void *)old);
  }
  if (!old && nsize == 0) { L_alloc(0, 0, tag, 0); if (trace) printf("O %" PRIu64 " %d %zu 0 0 0 0 0 0 0 0 0\n", opno, slot, osize); return; }
  /* remember the old block's geometry: after the call the old span may be gone */
  uintptr_t old_us = old ? rpmalloc_usable_size(old) : 0;
  if (old) unregister_block(old);
  unsigned char *p = (unsigned char *)L_alloc(0, old, osize, nsize);
  if (nsize == 0) {
    st_free++;
    s->p = 0; s->size = 0;
    if (p) FAILF("free-returned-nonnull op=%" PRIu64, opno);
    if (trace) printf("O %" PRIu64 " %d %zu 0 0 0 0 0 0 0 0 0\n", opno, slot, osize);
    return;
  }
  st_regime[regime_of(nsize)]++;
  if (!p) { FAILF("null-returned op=%" PRIu64 " slot=%d osize=%zu nsize=%zu", opno, slot, osize, nsize); if (old) { check_new_block(slot, old, osize, 1); } return; }
  if (!old) { st_alloc++; s->seed = (uint32_t)(++serial * 2246822519u + 7u); }
  else if (p == old) { st_inplace++; if (old_us < nsize) FAILF("inplace-but-did-not-fit op=%" PRIu64 " slot=%d nsize=%zu old_usable=%zu", opno, slot, nsize, (size_t)old_us); }
  else st_moved++;
  check_new_block(slot, p, nsize, 1);
  s->p = p;
  size_t keep = old ? (osize < nsize ? osize : nsize) : 0;
  if (keep) {
    long bad = verify(p, s->seed, keep);
    if (bad >= 0) FAILF("content-not-preserved op=%" PRIu64 " slot=%d osize=%zu nsize=%zu at=%ld moved=%d", opno, slot, osize, nsize, bad, p != old);
  }
  s->size = nsize;
  fill(s, keep, nsize);
  if (trace) {
    span_t *span = (span_t *)((uintptr_t)p & _memory_span_mask);
    int sm = span->size_class < SIZE_CLASS_COUNT;
    printf("O %" PRIu64 " %d %zu %zu %" PRIxPTR " %zu %zu %u %u %u %u %d\n", opno, slot, osize, nsize,
           (uintptr_t)span >> _memory_span_size_shift, (size_t)((uintptr_t)p - (uintptr_t)span), rpmalloc_usable_size(p),
           span->size_class, sm ? span->block_size : 0, sm ? span->block_count : 0, span->span_count, p == old);
  }
}

/* xorshift64* */
static uint64_t rs;
static uint64_t rnd(void) { rs ^= rs >> 12; rs ^= rs << 25; rs ^= rs >> 27; return rs * 2685821657736338717ull; }
static size_t rrange(size_t lo, size_t hi) { return lo + (size_t)(rnd() % (hi - lo + 1)); }

static size_t boundary_size(void) {
  static size_t b[64]; static int nb;
  if (!nb) {
    size_t base[] = { 1, SMALL_GRANULARITY, SMALL_SIZE_LIMIT, SMALL_SIZE_LIMIT + MEDIUM_GRANULARITY, (size_t)_memory_medium_size_limit,
                      _memory_span_size - SPAN_HEADER_SIZE, _memory_span_size, 2 * _memory_span_size - SPAN_HEADER_SIZE,
                      3 * _memory_span_size - SPAN_HEADER_SIZE, (size_t)LARGE_SIZE_LIMIT, 8192, 4096 };
    for (unsigned i = 0; i < sizeof(base) / sizeof(base[0]); i++) for (int d = -1; d <= 1; d++) { size_t v = base[i] + (size_t)d; if (v) b[nb++] = v; }
  }
  return b[rnd() % nb];
}

static size_t pick_size(int profile) {
  unsigned r = (unsigned)(rnd() % 1000);
  unsigned wS, wM, wL, wH; /* per mille, rest = boundary */
  switch (profile) {
    case 1: wS = 700; wM = 280; wL = 15; wH = 1; break;
    case 2: wS = 200; wM = 200; wL = 450; wH = 100; break;
    case 3: wS = 100; wM = 100; wL = 50; wH = 10; break;
    default: wS = 580; wM = 320; wL = 70; wH = 4; break;
  }
  if (r < wS) { if (rnd() & 1) return rrange(1, 128); return rrange(1, SMALL_SIZE_LIMIT); }
  r -= wS;
  if (r < wM) { if (rnd() % 4 == 0) { size_t k = rrange(0, MEDIUM_CLASS_COUNT - 1); return SMALL_SIZE_LIMIT + k * MEDIUM_GRANULARITY + rrange(0, 2); } return rrange(SMALL_SIZE_LIMIT + 1, _memory_medium_size_limit); }
  r -= wM;
  if (r < wL) { if (rnd() % 4) return rrange(_memory_medium_size_limit + 1, 6 * _memory_span_size); return rrange(_memory_medium_size_limit + 1, LARGE_SIZE_LIMIT); }
  r -= wL;
  if (r < wH) return rrange(LARGE_SIZE_LIMIT + 1, LARGE_SIZE_LIMIT + 3 * 1024 * 1024);
  return boundary_size();
}

static void gen_ops(uint64_t seed, uint64_t n, int nslots, int profile) {
  rs = seed * 0x9E3779B97F4A7C15ull + 0x1234567ull; rnd(); rnd();
  if (nslots > MAXSLOT) nslots = MAXSLOT;
  for (uint64_t k = 0; k < n; k++) {
    int slot = (int)(rnd() % (unsigned)nslots);
    slot_t *s = &slots[slot];
    if (!s->p) { do_lalloc(slot, pick_size(profile), (size_t)(rnd() % 10)); continue; }
    unsigned r = (unsigned)(rnd() % 100);
    if (r < 35) { do_lalloc(slot, 0, 0); continue; }
    size_t o = s->size, nsz;
    unsigned m = (unsigned)(rnd() % 8);
    switch (m) {
      case 0: nsz = o + rrange(1, 32); break;                 /* small growth */
      case 1: nsz = o > 33 ? o - rrange(1, 32) : 1; break;    /* small shrink */
      case 2: nsz = o * 2; break;                             /* vector growth, as luaM_growaux does */
      case 3: nsz = o / 2 ? o / 2 : 1; break;
      case 4: nsz = o + o / 2; break;
      case 5: nsz = o; break;
      default: nsz = pick_size(profile); break;
    }
    if (nsz > LARGE_SIZE_LIMIT + 8 * 1024 * 1024 || (profile != 2 && nsz > o && nsz > 300000 && (rnd() % 8))) nsz = pick_size(profile);
    do_lalloc(slot, nsz, 0);
  }
}

static void verify_all(void) {
  for (int i = 0; i < MAXSLOT; i++) if (slots[i].p) {
    long bad = verify(slots[i].p, slots[i].seed, slots[i].size);
    if (bad >= 0) FAILF("content-corrupted-while-live final slot=%d size=%zu at=%ld", i, slots[i].size, bad);
  }
}

int main(int argc, char **argv) {
  char line[256];
  trace = argc > 1 && !strcmp(argv[1], "trace");
  /* watchdog: a broken allocator can loop forever (C19_ALARM seconds, default 600) */
  alarm(getenv("C19_ALARM") ? (unsigned)atoi(getenv("C19_ALARM")) : 600u);
  static char obuf[1 << 20];
  setvbuf(stdout, obuf, _IOFBF, sizeof obuf);
  rpmalloc_config_t cfg; memset(&cfg, 0, sizeof cfg);
  cfg.memory_map = hook_map; cfg.memory_unmap = hook_unmap;
  rpmalloc_initialize_config(&cfg);
  while (fgets(line, sizeof line, stdin)) {
    if (line[0] == 'T') {
      printf("K SMALL_GRANULARITY %d\nK SMALL_GRANULARITY_SHIFT %d\nK SMALL_CLASS_COUNT %d\nK SMALL_SIZE_LIMIT %d\n", SMALL_GRANULARITY, SMALL_GRANULARITY_SHIFT, SMALL_CLASS_COUNT, SMALL_SIZE_LIMIT);
      printf("K MEDIUM_GRANULARITY %d\nK MEDIUM_GRANULARITY_SHIFT %d\nK MEDIUM_CLASS_COUNT %d\nK SIZE_CLASS_COUNT %d\nK LARGE_CLASS_COUNT %d\n", MEDIUM_GRANULARITY, MEDIUM_GRANULARITY_SHIFT, MEDIUM_CLASS_COUNT, SIZE_CLASS_COUNT, LARGE_CLASS_COUNT);
      printf("K MEDIUM_SIZE_LIMIT %zu\nK LARGE_SIZE_LIMIT %zu\nK SPAN_HEADER_SIZE %d\nK SPAN_SIZE %zu\nK SPAN_SIZE_SHIFT %d\n", (size_t)MEDIUM_SIZE_LIMIT, (size_t)LARGE_SIZE_LIMIT, SPAN_HEADER_SIZE, (size_t)_memory_span_size, (int)_memory_span_size_shift);
      printf("K medium_size_limit %zu\nK page_size %zu\nK page_size_shift %zu\nK sizeof_span_t %zu\nK LALLOC_ALIGN %d\nK LALLOC_FLAGS %d\n", _memory_medium_size_limit, _memory_page_size, _memory_page_size_shift, sizeof(span_t), LALLOC_ALIGN, LALLOC_FLAGS);
      for (int i = 0; i < SIZE_CLASS_COUNT; i++) printf("C %d %u %u %u\n", i, _memory_size_class[i].block_size, _memory_size_class[i].block_count, _memory_size_class[i].class_idx);
    } else if (line[0] == 'A') {
      int slot; size_t n; unsigned tag = 0;
      if (sscanf(line + 1, "%d %zu %u", &slot, &n, &tag) >= 2 && slot >= 0 && slot < MAXSLOT) do_lalloc(slot, n, tag);
    } else if (line[0] == 'G') {
      uint64_t seed, n; int ns, prof;
      if (sscanf(line + 1, "%" SCNu64 " %" SCNu64 " %d %d", &seed, &n, &ns, &prof) == 4) gen_ops(seed, n, ns, prof);
    } else if (line[0] == 'X') {
      /* probe in a child: for sizes where size + header wraps the block is not even span aligned, so
         neither rpmalloc_usable_size nor rpfree may be called on it */
      size_t n = (size_t)strtoull(line + 1, 0, 16);
      fflush(stdout);
      pid_t pid = fork();
      if (pid == 0) {
        uint64_t before = mapped_bytes;
        void *p = L_alloc(0, 0, 0, n);
        printf("X %zx %s mapped=%" PRIx64 "\n", n, p ? "nonnull" : "null", mapped_bytes - before);
        fflush(stdout);
        _exit(0);
      }
      int wst = 0;
      waitpid(pid, &wst, 0);
      if (wst) printf("X %zx crashed status=%d\n", n, wst);
    } else if (line[0] == 'V') {
      verify_all();
    } else if (line[0] == 'F') {
      verify_all();
      uint64_t live = 0;
      for (int i = 0; i < MAXSLOT; i++) if (slots[i].p) { live++; do_lalloc(i, 0, 0); }
      rpmalloc_finalize();
      if (trace) printf("Z\n");   /* end of an allocator lifetime: the model starts from the empty heap again */
      printf("M map_calls=%" PRIu64 " unmap_release_calls=%" PRIu64 " unmap_partial_calls=%" PRIu64 " mapped_bytes=%" PRIu64 " released_bytes=%" PRIu64 " regions_left=%zu map_errors=%" PRIu64 " freed_at_end=%" PRIu64 "\n",
             map_calls, unmap_release_calls, unmap_partial_calls, mapped_bytes, released_bytes, nregions, map_errors, live);
      if (nregions || mapped_bytes != released_bytes || map_errors) FAILF("map-unmap-imbalance mapped=%" PRIu64 " released=%" PRIu64 " regions_left=%zu errors=%" PRIu64, mapped_bytes, released_bytes, nregions, map_errors);
      /* a second life: the allocator must be usable again after finalize (lua.c never does this; kept cheap) */
      rpmalloc_initialize_config(&cfg);
    }
  }
  printf("S ops=%" PRIu64 " fails=%" PRIu64 " alloc=%" PRIu64 " free=%" PRIu64 " inplace=%" PRIu64 " moved=%" PRIu64 " small=%" PRIu64 " medium=%" PRIu64 " large=%" PRIu64 " huge=%" PRIu64 " bytes_checked=%" PRIu64 "\n",
         opno, nfail, st_alloc, st_free, st_inplace, st_moved, st_regime[0], st_regime[1], st_regime[2], st_regime[3], st_bytes_checked);
  return nfail ? 3 : 0;
}
