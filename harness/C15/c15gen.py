"""C15 harness side: random programs of the defer mini-language, their serialisation for the
extracted model (coq/C15/driver.ml), the Nelua pretty-printer and the tokenizer of the emitted C.

AST (python tuples), mirrors coq/C15/Model.v:
  ('emit',k) ('defer',d,block) ('close',[(k,late)..]) ('do',block) ('if',c,t,e) ('while',c,block)
  ('repeat',block,c) ('for',n,block) ('switch',c,[(block,ft)..],default_block) ('doexpr',block)
  ('in',e) ('break',) ('continue',) ('return',e) ('retvoid',) ('call',void,block)
"""
import re


def rets(s):
    """expressions of a ('return', e | [e1, e2, ..]) statement"""
    return list(s[1]) if isinstance(s[1], (list, tuple)) else [s[1]]


def ret_arity(b):
    """number of values the function with body b returns (that of its first return statement, not looking into callees)"""
    for s in b:
        t = s[0]
        if t == 'return':
            return len(rets(s))
        subs = []
        if t == 'defer': subs = [s[2]]
        elif t in ('do', 'doexpr'): subs = [s[1]]
        elif t in ('while', 'for'): subs = [s[2]]
        elif t == 'repeat': subs = [s[1]]
        elif t == 'if': subs = [s[2], s[3]]
        elif t == 'switch': subs = [bb for bb, _ in s[2]] + [s[3]]
        for bb in subs:
            a = ret_arity(bb)
            if a:
                return a
    return 0


# ------------------------------------------------------------------ serialisation for the model driver
def ser_block(b, out):
    out.append("(")
    for s in b:
        ser_stmt(s, out)
    out.append(")")


def ser_stmt(s, out):
    t = s[0]
    if t == 'emit': out += ["E", str(s[1])]
    elif t == 'defer': out += ["D", str(s[1])]; ser_block(s[2], out)
    elif t == 'close':
        out += ["K", str(len(s[1]))]
        for k, late in s[1]:
            out += [str(k), "1" if late else "0"]
    elif t == 'do': out.append("O"); ser_block(s[1], out)
    elif t == 'if': out += ["I", str(s[1])]; ser_block(s[2], out); ser_block(s[3], out)
    elif t == 'while': out += ["W", str(s[1])]; ser_block(s[2], out)
    elif t == 'repeat': out.append("P"); ser_block(s[1], out); out.append(str(s[2]))
    elif t == 'for': out += ["F", str(s[1])]; ser_block(s[2], out)
    elif t == 'switch':
        out += ["S", str(s[1]), "["]
        for b, ft in s[2]:
            ser_block(b, out); out.append("1" if ft else "0")
        out.append("]"); ser_block(s[3], out)
    elif t == 'doexpr': out.append("X"); ser_block(s[1], out)
    elif t == 'in': out += ["N", str(s[1])]
    elif t == 'break': out.append("B")
    elif t == 'continue': out.append("C")
    elif t == 'return': out += ["R", str(len(rets(s)))] + [str(e) for e in rets(s)]
    elif t == 'retvoid': out.append("V")
    elif t == 'call': out += ["L", "1" if s[1] else "0"]; ser_block(s[2], out)
    else: raise ValueError(t)


def serialise(void, body):
    out = ["1" if void else "0"]
    ser_block(body, out)
    return " ".join(out)


# ------------------------------------------------------------------ Nelua printer
PRELUDE = r"""
require 'arg'
require 'os'
require 'string'
local script: [512]integer
local nscript: integer = 0
local pos: integer = 0
local clock: integer = 0
local function zzlog(t: string, n: integer) <noinline>
  print(t, n)
  clock = clock + 1
end
local function zznext(): integer <noinline>
  if pos >= nscript then print('X') os.exit(0) end
  pos = pos + 1
  return script[pos-1]
end
local function zzev(k: integer) <noinline> zzlog('E', k) end
local function zzrg(k: integer) <noinline> zzlog('G', k) end
local function zzrn(k: integer) <noinline> zzlog('U', k) end
local function zzcd(c: integer): boolean <noinline> local v = zznext() zzlog('C', c) return v ~= 0 end
local function zzcv(c: integer): integer <noinline> local v = zznext() zzlog('C', c) return v end
local function zzxv(e: integer): integer <noinline> local v = clock zzlog('R', e) return v end
local function zzpv(v: integer) <noinline> zzlog('V', v) end
local Rv = @record{v: integer, w: integer}
local Cl = @record{k: integer}
function Cl:__close() <noinline> zzlog('U', self.k) end
local function zzmk(k: integer): Cl <noinline> return Cl{k=k} end
-- polymorphic: the type of `zzmkl(k)` is only known after the call has been instantiated (a later pass)
local function zzmkl(k: auto) <noinline> return zzmk(k) end
"""


class Printer:
    """Prints test functions; every ('call',..) node becomes its own Nelua function."""

    RETMODES = ("call", "int", "rec", "arr", "pair")

    def __init__(self, rng=None):
        self.funcs = []      # text of function definitions, callee first
        self.nfun = 0
        self.nvar = 0
        self.rng = rng
        self.mode = ["call"]   # stack: how the current function returns its value
        self.modes = {}        # function name -> mode

    # return modes (non-void functions): "call": `return zzxv(e)`; the others return a BARE VARIABLE
    # (integer / record / array) assigned just before, and every deferred block of the function
    # clobbers that variable (through the field / element) - the caller must still see the value
    # the variable had when `return` was executed.
    def clobber(self, p):
        m = self.mode[-1]
        if m == "int": return [p + "rv = -7"]
        if m == "rec": return [p + "rv.v = -7"]
        if m == "arr": return [p + "rv[1] = -7"]
        return []

    def block(self, b, ind, void):
        lines = []
        for s in b:
            lines += self.stmt(s, ind, void)
        return lines

    def stmt(self, s, ind, void):
        p = "  " * ind
        t = s[0]
        if t == 'emit':
            return [p + "zzev(%d)" % s[1]]
        if t == 'defer':
            return [p + "zzrg(%d)" % s[1], p + "defer", p + "  zzrn(%d)" % s[1]] + self.clobber(p + "  ") + \
                self.block(s[2], ind + 1, void) + [p + "end"]
        if t == 'close':
            self.nvar += 1
            names = ["c%d" % k for k, _ in s[1]]
            # the G markers (registration of the injected defers) follow the declaration, in declaration order
            # (visit_close keeps the injected defers in declaration order whatever the resolution order)
            order = [k for k, late in s[1]]
            return [p + "local " + ", ".join(n + " <close>" for n in names) + " = " +
                    ", ".join(("zzmkl(%d)" if late else "zzmk(%d)") % k for k, late in s[1])] + \
                   [p + " ".join("zzrg(%d)" % k for k in order)]
        if t == 'do':
            return [p + "do"] + self.block(s[1], ind + 1, void) + [p + "end"]
        if t == 'if':
            r = [p + "if zzcd(%d) then" % s[1]] + self.block(s[2], ind + 1, void)
            if s[3]:
                r += [p + "else"] + self.block(s[3], ind + 1, void)
            return r + [p + "end"]
        if t == 'while':
            return [p + "while zzcd(%d) do" % s[1]] + self.block(s[2], ind + 1, void) + [p + "end"]
        if t == 'repeat':
            return [p + "repeat"] + self.block(s[1], ind + 1, void) + [p + "until zzcd(%d)" % s[2]]
        if t == 'for':
            return [p + "for _i=1,%d do" % s[1]] + self.block(s[2], ind + 1, void) + [p + "end"]
        if t == 'switch':
            r = [p + "switch zzcv(%d) do" % s[1]]
            for i, (b, ft) in enumerate(s[2]):
                r += [p + "case %d then" % i] + self.block(b, ind + 1, void)
                if ft:
                    r.append(p + "  fallthrough")
            if s[3]:
                r += [p + "else"] + self.block(s[3], ind + 1, void)
            return r + [p + "end"]
        if t == 'doexpr':
            return [p + "zzpv((do"] + self.block(s[1], ind + 1, void) + [p + "end))"]
        if t == 'in':
            return [p + "in zzxv(%d)" % s[1]]
        if t == 'break':
            return [p + "break"]
        if t == 'continue':
            return [p + "continue"]
        if t == 'return':
            m = self.mode[-1]
            if m == "int": return [p + "rv = zzxv(%d) return rv" % rets(s)[0]]
            if m == "rec": return [p + "rv.v = zzxv(%d) return rv" % rets(s)[0]]
            if m == "arr": return [p + "rv[1] = zzxv(%d) return rv" % rets(s)[0]]
            # several returned values: the _mulret path of visitors.Return
            if m == "pair": return [p + "return " + ", ".join("zzxv(%d)" % e for e in rets(s))]
            return [p + "return zzxv(%d)" % rets(s)[0]]
        if t == 'retvoid':
            return [p + "return;"]
        if t == 'call':
            name = self.function(s[1], s[2])
            if not s[1] and self.modes[name] == "pair":
                return [p + "do local pa, pb = %s() zzpv(pa) zzpv(pb) end" % name]
            return [p + (name + "()" if s[1] else "zzpv(" + self.value_of(name) + ")")]
        raise ValueError(t)

    def value_of(self, name):
        m = self.modes[name]
        return name + {"call": "()", "int": "()", "rec": "().v", "arr": "()[1]", "pair": "()"}[m]

    def function(self, void, body, name=None):
        mode = "call"
        if not void and ret_arity(body) >= 2:
            mode = "pair"             # two returned values
        elif not void and self.rng is not None and self.rng.random() < 0.5:
            mode = self.rng.choice(self.RETMODES[1:4])
        self.mode.append("void" if void else mode)
        body_lines = self.block(body, 1, void)     # defines callees first
        self.mode.pop()
        if name is None:
            self.nfun += 1
            name = "zf%d" % self.nfun
        self.modes[name] = mode
        rett = {"call": "integer", "int": "integer", "rec": "Rv", "arr": "[2]integer", "pair": "(integer, integer)"}[mode]
        decl = {"call": [], "int": ["  local rv: integer = 0"], "rec": ["  local rv: Rv = {v=0, w=0}"],
                "arr": ["  local rv: [2]integer = {0, 0}"], "pair": []}[mode]
        head = "local function %s()%s <noinline>" % (name, "" if void else ": " + rett)
        self.funcs.append("\n".join([head] + decl + body_lines + ["end"]))
        return name


def print_program_ex(tests, rng=None):
    """tests: list of (void, body).  Returns the Nelua source; test i is function zt<i>.
    With rng, about half of the value-returning functions return a bare variable (see Printer)."""
    pr = Printer(rng)
    for i, (void, body) in enumerate(tests):
        pr.function(void, body, name="zt%d" % i)
    main = ["local which = tointeger(arg[1])",
            "nscript = #arg - 1",
            "for i=2,#arg do script[i-2] = tointeger(arg[i]) end"]
    for i, (void, _) in enumerate(tests):
        if void:
            call = "zt%d()" % i
        elif pr.modes["zt%d" % i] == "pair":
            call = "do local pa, pb = zt%d() zzpv(pa) zzpv(pb) end" % i
        else:
            call = "zzpv(%s)" % pr.value_of("zt%d" % i)
        main.append("%s which == %d then %s" % ("if" if i == 0 else "elseif", i, call))
    main.append("end")
    main.append("print('Z')")
    return PRELUDE + "\n\n".join(pr.funcs) + "\n\n" + "\n".join(main) + "\n", {n for n, m in pr.modes.items() if m == "pair"}


def print_program(tests, rng=None):
    return print_program_ex(tests, rng)[0]


def print_program_toplevel(body, rng=None):
    """One void test whose body is the MAIN CHUNK itself (root scope: `return` emits `return 0`, the defers
    of the root block run at the end of nelua_main).  The end marker is itself a root-scope defer."""
    pr = Printer(rng)
    pr.mode.append("void")
    lines = pr.block(body, 0, True)
    pr.mode.pop()
    head = ["nscript = #arg - 1",
            "for i=2,#arg do script[i-2] = tointeger(arg[i]) end",
            "defer print('Z') end"]
    return PRELUDE + "\n\n".join(pr.funcs) + "\n\n" + "\n".join(head + lines) + "\n"


# ------------------------------------------------------------------ Lua 5.4 printer (third voice for <close>)
LUA_PRELUDE = r"""
local script, pos, clock = {}, 0, 0
local function zzlog(t, n) print(t .. n) clock = clock + 1 end
local function zznext()
  if pos >= #script then print('X') os.exit(0) end
  pos = pos + 1
  return script[pos]
end
local function zzev(k) zzlog('E', k) end
local function zzrg(k) zzlog('G', k) end
local function zzcd(c) local v = zznext() zzlog('C', c) return v ~= 0 end
local function zzxv(e) local v = clock zzlog('R', e) return v end
local function zzpv(v) zzlog('V', v) end
local Cl = {__close = function(self) zzlog('U', self.k) end}
local function zzmk(k) return setmetatable({k = k}, Cl) end
"""


class LuaPrinter:
    """The Lua-expressible subset (to-be-closed variables, no defer/continue/switch/do-expression) printed as Lua 5.4."""

    def __init__(self):
        self.funcs = []
        self.nfun = 0

    def block(self, b, ind):
        out = []
        for s in b:
            out += self.stmt(s, ind)
        return out

    def stmt(self, s, ind):
        p = "  " * ind
        t = s[0]
        if t == 'emit': return [p + "zzev(%d)" % s[1]]
        if t == 'close':
            # Lua 5.4 allows one to-be-closed variable per declaration: consecutive declarations (closed in
            # reverse order) are what the reference semantics gives to a multi-variable <close> declaration
            return [p + " ".join("local c%d <close> = zzmk(%d)" % (k, k) for k, _ in s[1]),
                    p + " ".join("zzrg(%d)" % k for k, _ in s[1])]
        if t == 'do': return [p + "do"] + self.block(s[1], ind + 1) + [p + "end"]
        if t == 'if':
            r = [p + "if zzcd(%d) then" % s[1]] + self.block(s[2], ind + 1)
            if s[3]:
                r += [p + "else"] + self.block(s[3], ind + 1)
            return r + [p + "end"]
        if t == 'while': return [p + "while zzcd(%d) do" % s[1]] + self.block(s[2], ind + 1) + [p + "end"]
        if t == 'repeat': return [p + "repeat"] + self.block(s[1], ind + 1) + [p + "until zzcd(%d)" % s[2]]
        if t == 'for': return [p + "for _i=1,%d do" % s[1]] + self.block(s[2], ind + 1) + [p + "end"]
        if t == 'break': return [p + "do break end"]
        if t == 'return': return [p + "do return zzxv(%d) end" % rets(s)[0]]
        if t == 'retvoid': return [p + "do return end"]
        if t == 'call':
            name = self.function(s[1], s[2])
            return [p + ("F." + name + "()" if s[1] else "zzpv(F." + name + "())")]
        raise ValueError("not in the Lua subset: %s" % t)

    def function(self, void, body, name=None):
        lines = self.block(body, 1)
        if name is None:
            self.nfun += 1
            name = "zf%d" % self.nfun
        # functions live in a table: Lua allows at most 200 locals per function
        self.funcs.append("\n".join(["F.%s = function()" % name] + lines + ["end"]))
        return name


def print_lua(tests):
    pr = LuaPrinter()
    for i, (void, body) in enumerate(tests):
        pr.function(void, body, name="zt%d" % i)
    main = ["local which = tonumber(arg[1])", "for i=2,#arg do script[i-1] = tonumber(arg[i]) end",
            "local tests = {" + ", ".join("F.zt%d" % i for i in range(len(tests))) + "}",
            "local voids = {" + ", ".join("true" if v else "false" for v, _ in tests) + "}",
            "if voids[which+1] then tests[which+1]() else zzpv(tests[which+1]()) end", "print('Z')"]
    return LUA_PRELUDE + "local F = {}\n" + "\n\n".join(pr.funcs) + "\n\n" + "\n".join(main) + "\n"


# ------------------------------------------------------------------ tokenizer of the emitted C
TOKEN_RE = re.compile(r"""
   (?P<defer>\{\ /\*\ defer\ \*/)
 | (?P<sexpr_open>\(\{)
 | (?P<sexpr_close>\}\))
 | \w*_zzev\((?P<E>\d+)\)
 | \w*_zzrg\((?P<G>\d+)\)
 | \w*_zzrn\((?P<U>\d+)\)
 | \w*___close\(\(?&c(?P<U2>\d+)\)?\)
 | \w*_zzc[dv]\((?P<C>\d+)\)
 | \w*_zzxv\((?P<R>\d+)\)
 | (?P<V>\w*_zzpv\()
 | \w*_(?P<call>z[ft]\d+)\(\)
 | (?P<stop>_repeat_stop\ =)
 | (?P<expr>_expr\ =)
 | (?P<gotobreak>goto\ \w*breaklabel\w*;)
 | (?P<gotoexpr>goto\ \w*doexprlabel\w*;)
 | (?P<brk>\bbreak;)
 | (?P<cont>\bcontinue;)
 | (?P<ret>\breturn\b(?P<retexpr>[^;]*);)
 | (?P<whl>\bwhile\()
 | (?P<do>\bdo\ \{)
 | (?P<for>\bfor\()
 | (?P<switch>\bswitch\()
 | (?P<case>\bcase\ [^:\n]+:)
 | (?P<default>\bdefault:)
 | (?P<if>\bif\()
 | (?P<else>\belse\b)
 | (?P<lb>\{)
 | (?P<rb>\})
""", re.X)

SIMPLE = {"defer": ["{defer"], "sexpr_open": ["({"], "sexpr_close": ["})"], "V": ["V"], "stop": ["stop="],
          "expr": ["expr="], "gotobreak": ["gotobreak"], "gotoexpr": ["gotoexpr"], "brk": ["break"],
          "cont": ["continue"], "ret": ["return"], "whl": ["while"], "do": ["do", "{"], "for": ["for"],
          "switch": ["switch"], "case": ["case"], "default": ["default"], "if": ["if"], "else": ["else"],
          "lb": ["{"], "rb": ["}"]}

FUNC_RE = re.compile(r"^[A-Za-z_][\w \*]*?\b\w*_(z[ft]\d+)\(void\) \{\n(.*?)^\}$", re.M | re.S)


def c_functions(ctext):
    """name -> body text of every emitted zt<i>/zf<i> definition."""
    return {m.group(1): m.group(2) for m in FUNC_RE.finditer(ctext)}


def c_tokens(name, funcs, depth=0, pairs=()):
    """Token list of function `name`, callees inlined as call( ... ).  For a callee returning two values the
    call site is `do local pa, pb = f() zzpv(pa) zzpv(pb) end`: its wrapper tokens ({ ... V V }) are folded
    into the `V V call( ... )` the model prints."""
    if depth > 60:
        raise RuntimeError("call nesting too deep")
    body = funcs[name]
    body = re.sub(r"=[ ]*(?:\([\w ]+\))?\{[^;\n]*\};", ";", body)    # aggregate initialisers of the rv variable
    out = []
    skipq = []

    def put(toks):
        for t in toks:
            if skipq and t == skipq[0]:
                skipq.pop(0)
                continue
            out.append(t)
    for m in TOKEN_RE.finditer(body):
        k = m.lastgroup
        if k == "ret":
            # `return zzxv(e);` and `return tmp;` both read  R<e>? return  (the model prints TReturn the same way)
            mm = re.search(r"_zzxv\((\d+)\)", m.group("retexpr") or "")
            put((["R" + mm.group(1)] if mm else []) + ["return"])
        elif k in SIMPLE:
            put(SIMPLE[k])
        elif k in ("E", "C", "R"):
            put([k + m.group(k)])
        elif k == "G":
            put(["G" + m.group(k)])
        elif k in ("U", "U2"):
            put(["U" + m.group(k)])
        elif k == "call":
            inner = c_tokens(m.group("call"), funcs, depth + 1, pairs)
            if m.group("call") in pairs:
                if not out or out[-1] != "{":
                    raise RuntimeError("two-value call site without its wrapper block")
                out.pop()
                out.extend(["V", "V", "call("] + inner + [")"])
                skipq[:] = ["V", "V", "}"]
            else:
                put(["call("] + inner + [")"])
    # canonicalise: an empty `else { }` is dropped (the model prints no else for an empty block)
    res = []
    i = 0
    while i < len(out):
        if out[i] == "else" and out[i + 1:i + 3] == ["{", "}"]:
            i += 3
            continue
        res.append(out[i])
        i += 1
    return res


# ------------------------------------------------------------------ random programs
class Gen:
    """Random programs obeying the placement rules of the analyzer (break/continue inside a loop of the
    same function, `in` only inside a do-expression whose block ends with `in`, fallthrough last in a
    case followed by another block, no return/break/continue/in leaving a defer block).  Inside deferred
    blocks no early `in` and no break-inside-switch are generated: such a block emitted at two exits gets
    duplicate C labels (a C03 matter, unrelated to the clean-up placement)."""

    def __init__(self, rng, allow_ft_defer=True, allow_escape=False, allow_nested_defer=True, any_late=True, misplace=False, lua_subset=False, maxdepth=4):
        self.rng = rng
        self.n = 0
        self.allow_ft_defer = allow_ft_defer
        self.allow_escape = allow_escape
        self.allow_nested_defer = allow_nested_defer
        self.any_late = any_late
        self.misplace = misplace      # exits may be placed where the analyzer must reject them
        self.lua_subset = lua_subset  # only constructs Lua 5.4 has: <close> (no defer), no continue/switch/do-expression
        self.maxdepth = maxdepth

    def fresh(self):
        self.n += 1
        return self.n

    def pick_nret(self, void):
        """number of returned values of a new function: two (the _mulret path) for a quarter of them"""
        return 0 if void else (2 if (not self.lua_subset and self.rng.random() < 0.25) else 1)

    def mkret(self, nret):
        return ('return', self.fresh()) if nret <= 1 else ('return', [self.fresh() for _ in range(nret)])

    def program(self):
        void = self.rng.random() < 0.3
        self.n = 0
        nret = self.pick_nret(void)
        body = self.block(0, dict(loop=False, doexpr=False, void=void, fn=True, defer=False, nret=nret), 2, 6)
        if not void:
            body.append(self.mkret(nret))
        elif self.rng.random() < 0.3:
            body.append(('retvoid',))
        return (void, body)

    def in_tail(self, depth, cx, budget):
        """Statements ending a do-expression block: `in e`, or do ... <tail> end, or if c then ... <tail> else ... <tail> end;
        the blocks in between may register defers / <close> variables."""
        r = self.rng
        k = r.random()
        if budget <= 0 or k < 0.45:
            return [('in', self.fresh())]
        pre = lambda: self.block(depth + 1, cx, 0, 2)
        if k < 0.7:
            return [('do', [s for s in pre() if s[0] != 'in'] + self.in_tail(depth + 1, cx, budget - 1))]
        return [('if', self.fresh(), [s for s in pre() if s[0] != 'in'] + self.in_tail(depth + 1, cx, budget - 1),
                 [s for s in pre() if s[0] != 'in'] + self.in_tail(depth + 1, cx, budget - 1))]

    def doexpr_targeted(self):
        """do-expressions whose top block registers defers / <close> and ends in do / if-else chains with `in`
        at the tails, plus `in` in non-tail positions."""
        r = self.rng
        self.n = 0
        void = r.random() < 0.5
        nret = self.pick_nret(void)
        cx = dict(loop=False, doexpr=True, void=void, fn=True, defer=False, sw=False, nret=nret)

        def md():
            if r.random() < 0.6:
                return [('defer', self.fresh(), [('emit', self.fresh())] if r.random() < 0.6 else [])]
            if r.random() < 0.5:
                return [('close', [(self.fresh(), r.random() < 0.3), (self.fresh(), False)])]
            return []
        top = md() + [('emit', self.fresh())]
        if r.random() < 0.4:
            top.append(('if', self.fresh(), md() + [('in', self.fresh())], []))     # early, non-tail `in`
        top += md() + self.in_tail(1, cx, 3)
        body = md() + [('doexpr', top), ('emit', self.fresh())]
        if r.random() < 0.4:
            body = md() + [('while', self.fresh(), body)]
        if not void:
            body.append(self.mkret(nret))
        return (void, body)

    def targeted(self):
        """[defer] loop { [defer] switch { case: [defer] .. break|continue|return .. } [defer] } : the exits
        inside the switch must run the defers of the case block, of the loop body (outside the switch)
        and - for return - of the function body; `break` inside the switch becomes a goto."""
        r = self.rng
        self.n = 0
        void = r.random() < 0.3
        nret = self.pick_nret(void)
        cx = dict(loop=True, doexpr=False, void=void, fn=True, defer=False, sw=True, nret=nret)

        def ex():
            e = self.exit_stmt(cx)
            return e

        def md():
            if r.random() < 0.7:
                return [('defer', self.fresh(), [('emit', self.fresh())] if r.random() < 0.7 else [])]
            if r.random() < 0.3:
                return [('close', [(self.fresh(), r.random() < 0.3), (self.fresh(), r.random() < 0.3)])]
            return []
        cases = []
        for _ in range(r.randint(1, 3)):
            b = md() + [('emit', self.fresh())]
            if r.random() < 0.6:
                b.append(('if', self.fresh(), md() + [ex()], []))
            b += md()
            if r.random() < 0.6:
                b.append(ex())
            cases.append((b, False))
        dflt = (md() + [ex()]) if r.random() < 0.5 else []
        inner = md() + [('emit', self.fresh()), ('switch', self.fresh(), cases, dflt)] + md() + [('emit', self.fresh())]
        k = r.choice(['while', 'repeat', 'for', 'while'])
        if k == 'while': loop = ('while', self.fresh(), inner)
        elif k == 'repeat': loop = ('repeat', inner, self.fresh())
        else: loop = ('for', r.randint(1, 3), inner)
        if r.random() < 0.3:
            loop = ('do', md() + [loop])
        body = md() + [loop, ('emit', self.fresh())] + md()
        if not void:
            body.append(self.mkret(nret))
        return (void, body)

    def block(self, depth, cx, lo=0, hi=4, no_defer=False):
        if cx['defer'] and not self.allow_nested_defer:
            no_defer = True       # no defer inside a deferred block (the generator re-registers them per emission)
        n = self.rng.randint(lo, hi)
        b = []
        for _ in range(n):
            s = self.stmt(depth, cx, no_defer)
            b.append(s)
            if s[0] in ('break', 'continue', 'return', 'retvoid', 'in') and self.rng.random() < 0.85:
                break
        return b

    def exit_stmt(self, cx):
        opts = []
        if cx['loop']:
            if not self.lua_subset:
                opts += [('continue',)] * 2
            # a deferred block is emitted once per exit: a break label inside it would be emitted twice
            # (duplicate C label, a C03 matter) - keep `break`-inside-switch out of deferred blocks
            if not (cx['defer'] and cx.get('sw')): opts += [('break',)] * 2
        if cx['fn']: opts.append(('retvoid',) if cx['void'] else ('return', None))
        if cx['doexpr'] and not cx['defer']: opts.append(('in', None))
        if self.misplace and self.rng.random() < 0.4:
            opts = [('break',), ('continue',), ('retvoid',) if cx['void'] else ('return', None), ('in', None)]
        if not opts:
            return None
        s = self.rng.choice(opts)
        if s[0] == 'return':
            s = self.mkret(cx.get('nret', 1))
        elif s[0] == 'in' and len(s) > 1:
            s = (s[0], self.fresh())
        return s

    def stmt(self, depth, cx, no_defer=False):
        r = self.rng
        deep = depth >= self.maxdepth
        w = r.random()
        if w < 0.20 or (deep and w < 0.5):
            return ('emit', self.fresh())
        if self.lua_subset and 0.20 <= w < 0.42 and not no_defer:
            n = r.randint(1, 3)
            return ('close', [(self.fresh(), False) for _ in range(n)])
        if w < 0.42 and not no_defer:
            if r.random() < 0.2:
                n = r.randint(1, 3)
                nl = r.randint(0, n) if r.random() < 0.3 else 0        # late-typed ones only at the end
                if self.any_late:
                    return ('close', [(self.fresh(), r.random() < 0.5) for i in range(n + 1)])
                return ('close', [(self.fresh(), i >= n - nl) for i in range(n)])
            d = self.fresh()
            if self.allow_escape:
                icx = dict(cx, defer=True)
            else:
                icx = dict(cx, loop=False, doexpr=False, fn=False, defer=True)
            return ('defer', d, self.block(depth + 1, icx, 0, 3))
        if w < 0.55:
            e = self.exit_stmt(cx)
            if e is not None:
                if r.random() < 0.6:
                    return ('if', self.fresh(), [e], [] if r.random() < 0.6 else self.block(depth + 1, cx, 1, 2))
                return e
            return ('emit', self.fresh())
        if deep:
            return ('emit', self.fresh())
        if w < 0.62:
            return ('do', self.block(depth + 1, cx, 0, 3))
        if w < 0.70:
            return ('if', self.fresh(), self.block(depth + 1, cx, 1, 3), self.block(depth + 1, cx, 0, 2))
        if w < 0.76:
            return ('while', self.fresh(), self.block(depth + 1, dict(cx, loop=True, sw=False), 1, 4))
        if w < 0.82:
            return ('repeat', self.block(depth + 1, dict(cx, loop=True, sw=False), 1, 4), self.fresh())
        if w < 0.86:
            return ('for', r.randint(1, 3), self.block(depth + 1, dict(cx, loop=True, sw=False), 1, 4))
        if self.lua_subset and w >= 0.86:
            if w < 0.93:
                return ('do', self.block(depth + 1, cx, 0, 3))
            void = r.random() < 0.4
            b = self.block(depth + 1, dict(loop=False, doexpr=False, void=void, fn=True, defer=False, nret=1), 1, 4)
            if not void:
                b.append(('return', self.fresh()))
            return ('call', void, b)
        if w < 0.92:
            c = self.fresh()
            ncase = r.randint(1, 3)
            has_else = r.random() < 0.5
            cases = []
            for i in range(ncase):
                can_ft = (i < ncase - 1) or has_else
                ft = can_ft and r.random() < 0.35
                b = self.block(depth + 1, dict(cx, sw=True), 0, 3, no_defer=(ft and not self.allow_ft_defer))
                if ft and b and b[-1][0] in ('break', 'continue', 'return', 'retvoid', 'in'):
                    ft = False
                cases.append((b, ft))
            d = self.block(depth + 1, dict(cx, sw=True), 1, 2) if has_else else []
            return ('switch', c, cases, d)
        if w < 0.96:
            b = self.block(depth + 1, dict(cx, doexpr=True), 0, 3)
            b = [s for s in b if s[0] != 'in'] if (r.random() < 0.5 or cx['defer']) else b
            # the do-expression block must end with `in` on every path (ASTNode:ends_with('In')): directly, or
            # at the tail of trailing do / if-else chains (only there the `goto` may NOT be omitted)
            b += self.in_tail(depth + 1, dict(cx, doexpr=True), 0 if cx['defer'] else 2)
            return ('doexpr', b)
        void = r.random() < 0.4
        nret = self.pick_nret(void)
        b = self.block(depth + 1, dict(loop=False, doexpr=False, void=void, fn=True, defer=False, nret=nret), 1, 4)
        if not void:
            b.append(self.mkret(nret))
        return ('call', void, b)


def strip_stale_lates(b):
    """Only the first <close> declaration (directly) in a block may have late-typed variables: a later one
    would be injected through a stale closeindex (known finding, outside the model)."""
    seen = False
    out = []
    for s in b:
        if s[0] == 'close':
            if seen:
                s = ('close', [(k, False) for k, _ in s[1]])
            elif any(l for _, l in s[1]):
                seen = True
        out.append(s)
    return out


def size(b):
    n = 0
    for s in b:
        n += 1
        for x in s[1:]:
            if isinstance(x, list):
                if x and isinstance(x[0], tuple) and len(x[0]) == 2 and isinstance(x[0][0], list):
                    for bb, _ in x:
                        n += size(bb)
                elif x and isinstance(x[0], tuple):
                    n += size(x)
    return n


def features(b, acc=None, ctx=()):
    """Set of (exit kind, enclosing construct chain containing a defer) features, for coverage counting."""
    if acc is None:
        acc = set()
    has_defer = any(s[0] in ('defer', 'close') for s in b)
    for s in b:
        t = s[0]
        if t in ('break', 'continue', 'return', 'retvoid', 'in'):
            acc.add((t,) + ctx + (('D',) if has_defer else ()))
        subs = []
        if t in ('defer',): subs = [(s[2], 'defer')]
        elif t in ('do', 'doexpr'): subs = [(s[1], t)]
        elif t in ('while', 'for'): subs = [(s[2], t)]
        elif t == 'repeat': subs = [(s[1], t)]
        elif t == 'if': subs = [(s[2], 'if'), (s[3], 'if')]
        elif t == 'switch': subs = [(bb, 'caseft' if ft else 'case') for bb, ft in s[2]] + [(s[3], 'case')]
        elif t == 'call': subs = [(s[2], 'fn')]
        for bb, tag in subs:
            features(bb, acc, (ctx + (tag + ('D' if has_defer else ''),))[-4:])
    return acc
