"""Generators and renderers for the C16 tie.

Templates are small ASTs (for / if / macro call / emit-with-holes) that are rendered twice:
  * as a Nelua program using the preprocessor (## for, ## if, ## local function mac..., #[e]#, #|'p'..e|#),
  * as the hand-expanded program, from the lines the extracted Coq expander returns.
Also: generic / polymorphic-function / hygiene probe programs whose observable behaviour is
predicted by the extracted model (coq/C16/driver.ml)."""

# fixed text pieces (the Coq side only sees their index)
TEXT = [
    "local function ",                                   # 0
    "(x: integer): integer return x * ",                 # 1
    " + ",                                               # 2
    " end",                                              # 3
    "print('f', ",                                       # 4
    ", ",                                                # 5
    "(",                                                 # 6
    "))",                                                # 7
    "local ",                                            # 8
    " = @record{a: [",                                   # 9
    "]integer, b: integer}",                             # 10
    "do local r: ",                                      # 11
    "; r.b = ",                                          # 12
    "; print('R', #(@",                                  # 13
    "), r.b) end",                                       # 14
    "global ",                                           # 15
    ": integer = ",                                      # 16
    "print('g', ",                                       # 17
    ")",                                                 # 18
    "print('lit', ",                                     # 19
]
PREFIX = ["f", "R", "g"]


# ---- expressions: ('c', z) ('v', n) ('+', a, b) ('*', a, b) ('%', a, b);  conds ('=', a, b) ('<', a, b) ('!', c)
def e_tokens(e):
    if e[0] in "cv":
        return [e[0], str(e[1])]
    return [e[0]] + e_tokens(e[1]) + e_tokens(e[2])


def c_tokens(c):
    if c[0] == "!":
        return ["!"] + c_tokens(c[1])
    return [c[0]] + e_tokens(c[1]) + e_tokens(c[2])


def e_lua(e):
    if e[0] == "c":
        return str(e[1])
    if e[0] == "v":
        return "v%d" % e[1]
    return "(%s %s %s)" % (e_lua(e[1]), e[0], e_lua(e[2]))


def c_lua(c):
    if c[0] == "!":
        return "not (%s)" % c_lua(c[1])
    return "%s %s %s" % (e_lua(c[1]), "==" if c[0] == "=" else "<", e_lua(c[2]))


# ---- statements: ('emit', [pieces]) ('for', v, lo, hi, body) ('if', c, th, el) ('call', v, arg, body)
# pieces: ('t', n) ('s', e) ('n', prefix, e)
def s_tokens(body):
    out = [str(len(body))]
    for s in body:
        if s[0] == "emit":
            out += ["emit", str(len(s[1]))]
            for p in s[1]:
                if p[0] == "t":
                    out += ["t", str(p[1])]
                elif p[0] == "s":
                    out += ["s"] + e_tokens(p[1])
                else:
                    out += ["n", str(p[1])] + e_tokens(p[2])
        elif s[0] == "for":
            out += ["for", str(s[1])] + e_tokens(s[2]) + e_tokens(s[3]) + s_tokens(s[4])
        elif s[0] == "if":
            out += ["if"] + c_tokens(s[1]) + s_tokens(s[2]) + s_tokens(s[3])
        else:
            out += ["call", str(s[1])] + e_tokens(s[2]) + s_tokens(s[3])
    return out


def render_template(body, ind=0, counter=None):
    counter = counter if counter is not None else [0]
    L = []
    pad = "  " * ind
    for s in body:
        if s[0] == "emit":
            line = ""
            for p in s[1]:
                if p[0] == "t":
                    line += TEXT[p[1]]
                elif p[0] == "s":
                    line += "#[%s]#" % e_lua(p[1])
                else:
                    line += "#|'%s'..%s|#" % (PREFIX[p[1]], e_lua(p[2]))
            L.append(pad + line)
        elif s[0] == "for":
            L.append("%s## for v%d=%s,%s do" % (pad, s[1], e_lua(s[2]), e_lua(s[3])))
            L += render_template(s[4], ind + 1, counter)
            L.append(pad + "## end")
        elif s[0] == "if":
            L.append("%s## if %s then" % (pad, c_lua(s[1])))
            L += render_template(s[2], ind + 1, counter)
            if s[3]:
                L.append(pad + "## else")
                L += render_template(s[3], ind + 1, counter)
            L.append(pad + "## end")
        else:   # macro defined in place (sees the enclosing loop variables), then called
            counter[0] += 1
            m = "mac%d" % counter[0]
            L.append("%s## local function %s(v%d)" % (pad, m, s[1]))
            L += render_template(s[3], ind + 1, counter)
            L.append(pad + "## end")
            L.append("%s## %s(%s)" % (pad, m, e_lua(s[2])))
    return L


def render_expanded(model_line):
    """model_line: output of `expand` of the driver."""
    L = []
    if model_line == "":
        return L
    for xl in model_line.split("|"):
        line = ""
        for p in xl.split(","):
            if p[0] == "t":
                line += TEXT[int(p[1:])]
            elif p[0] == "i":
                line += p[1:]
            else:
                pre, z = p[1:].split(":")
                line += PREFIX[int(pre)] + z
        L.append(line)
    return L


def py_expand(body, env):
    """Reference expansion in Python (independent of the Coq model): list of rendered lines."""
    def ev(e):
        if e[0] == "c":
            return e[1]
        if e[0] == "v":
            return env.get(e[1], 0)
        a, b = ev(e[1]), ev(e[2])
        return a + b if e[0] == "+" else a * b if e[0] == "*" else a % b

    def evc(c):
        if c[0] == "!":
            return not evc(c[1])
        return ev(c[1]) == ev(c[2]) if c[0] == "=" else ev(c[1]) < ev(c[2])
    L = []
    for s in body:
        if s[0] == "emit":
            line = ""
            for p in s[1]:
                line += TEXT[p[1]] if p[0] == "t" else str(ev(p[1])) if p[0] == "s" else PREFIX[p[1]] + str(ev(p[2]))
            L.append(line)
        elif s[0] == "for":
            lo, hi = ev(s[2]), ev(s[3])
            old = env.get(s[1])
            for i in range(lo, hi + 1):
                env[s[1]] = i
                L += py_expand(s[4], env)
            if old is None:
                env.pop(s[1], None)
            else:
                env[s[1]] = old
        elif s[0] == "if":
            L += py_expand(s[2] if evc(s[1]) else s[3], env)
        else:
            old = env.get(s[1])
            env[s[1]] = ev(s[2])
            L += py_expand(s[3], env)
            if old is None:
                env.pop(s[1], None)
            else:
                env[s[1]] = old
    return L


def gen_template(rng):
    """Random template whose definitions get unique names (the name index combines a per-site
    number with all enclosing loop variables)."""
    site = [0]

    def small(vars_):
        c = rng.random()
        if vars_ and c < .6:
            v = ("v", rng.choice(vars_))
            if rng.random() < .4:
                return ("+", ("*", v, ("c", rng.randint(1, 3))), ("c", rng.randint(0, 5)))
            return v
        return ("c", rng.randint(0, 9))

    def unique_index(vars_):
        site[0] += 1
        e = ("c", site[0] * 1000)
        mul = 1
        for v in vars_:                      # loop variables range over 0..5
            e = ("+", e, ("*", ("v", v), ("c", mul)))
            mul *= 7
        return e

    def cond(vars_):
        a = small(vars_)
        c = rng.random()
        if c < .4:
            r = ("=", ("%", a, ("c", rng.randint(2, 3))), ("c", rng.randint(0, 1)))
        elif c < .8:
            r = ("<", a, small(vars_))
        else:
            r = ("=", a, small(vars_))
        return ("!", r) if rng.random() < .2 else r

    def block(vars_, depth, budget):
        body = []
        for _ in range(rng.randint(1, 3)):
            c = rng.random()
            nv = len(vars_) and max(vars_) + 1 or 0
            if depth < 3 and c < .30 and budget[0] > 0:
                budget[0] -= 1
                lo = rng.randint(0, 2)
                hi = rng.choice([lo - 1, lo, lo + 1, lo + 2, lo + 3]) if rng.random() < .8 else lo + 1
                body.append(("for", nv, ("c", lo), ("c", min(hi, 5)), block(vars_ + [nv], depth + 1, budget)))
            elif depth < 3 and c < .45:
                body.append(("if", cond(vars_), block(vars_, depth + 1, budget), block(vars_, depth + 1, budget) if rng.random() < .5 else []))
            elif depth < 3 and c < .55 and budget[0] > 0:
                body.append(("call", nv, small(vars_), block(vars_ + [nv], depth + 1, budget)))
            else:
                k = rng.random()
                idx = unique_index(vars_)
                if k < .35:      # function definition + use
                    body.append(("emit", [("t", 0), ("n", 0, idx), ("t", 1), ("s", small(vars_)), ("t", 2), ("s", small(vars_)), ("t", 3)]))
                    body.append(("emit", [("t", 4), ("s", idx), ("t", 5), ("n", 0, idx), ("t", 6), ("s", small(vars_)), ("t", 7)]))
                elif k < .55:    # record definition + use
                    body.append(("emit", [("t", 8), ("n", 1, idx), ("t", 9), ("s", ("+", ("%", small(vars_), ("c", 4)), ("c", 1))), ("t", 10)]))
                    body.append(("emit", [("t", 11), ("n", 1, idx), ("t", 12), ("s", small(vars_)), ("t", 13), ("n", 1, idx), ("t", 14)]))
                elif k < .7:     # global + use
                    body.append(("emit", [("t", 15), ("n", 2, idx), ("t", 16), ("s", small(vars_))]))
                    body.append(("emit", [("t", 17), ("n", 2, idx), ("t", 18)]))
                else:
                    body.append(("emit", [("t", 19), ("s", small(vars_)), ("t", 18)]))
        return body
    return block([], 0, [4])


# ---------------------------------------------------------------- probes

TYPES = ["integer", "number", "int32", "uint8", "boolean", "int16"]


def generic_program(calls, k_def, k_use):
    """calls: list of (type index, N, opt) with opt None (nil passed) or a number.  Returns the source."""
    L = ["local K = %d" % k_def,
         "## local make_box = generalize(function(T, opt, N)",
         "  local BoxT = @record{ v: #[T]#, a: [#[N]#]integer }",
         "  function BoxT:get(): integer return K * 1000 + #[N]# * 10 + #self.a end",
         "  ## return BoxT",
         "## end)",
         "local Box: type = #[make_box]#"]
    if k_use is not None:
        L.append("local K = %d" % k_use)
    for i, (t, n, o) in enumerate(calls):
        L.append("local B%d: type = @Box(%s, %s, %d)" % (i, TYPES[t], "nil" if o is None else str(o), n))
    for i in range(len(calls)):
        L.append("do local b: B%d; print('get', %d, b:get(), #B%d) end" % (i, i, i))
    eq = ["#[B%d.value == B%d.value]#" % (i, j) for i in range(len(calls)) for j in range(i + 1, len(calls))]
    L.append("print('same', %s)" % ", ".join(eq) if eq else "print('same')")
    if k_use is not None:
        L.append("print('K', K)")
    return "\n".join(L) + "\n"


POLY_ARGS = [   # (source text, model parg "type:tcomptime:isattr:comptime:value")
    ("1", "1:0:0:0:-"), ("2", "1:0:0:0:-"), ("1.5", "2:0:0:0:-"), ("3_i32", "3:0:0:0:-"), ("4_u8", "4:0:0:0:-"),
    ("true", "5:0:0:0:-"), ("@integer", "9:1:1:0:101"), ("@number", "9:1:1:0:102"), ("7_i32", "3:0:0:0:-"),
]


def poly_program(calls, alwayspoly):
    """calls: list of (index into POLY_ARGS, comptime n)."""
    ann = " <alwayspoly>" if alwayspoly else ""
    L = ["local function p(x: auto, n: integer <comptime>)%s" % ann,
         "  ## if x.type.is_type then",
         "  return #[n.value]#",
         "  ## elseif x.type.is_boolean then",
         "  return #[n.value]# + 1000",
         "  ## else",
         "  return x * #[n.value]#",
         "  ## end",
         "end"]
    for i, (a, n) in enumerate(calls):
        L.append("print('call', %d, p(%s, %d))" % (i, POLY_ARGS[a][0], n))
    return "\n".join(L) + "\n"


NAMES = ["K", "G", "AUX", "TMP"]       # model ids 1..4


def hygiene_program(defs, use, body, probe_after, extra=None):
    """defs/use/body: dict name-id -> value (comptime constants).  The generic's body declares the `body`
    names and builds a record whose array field sizes are the names it reads (type expressions are
    analysed during the hygienized call, so they show what the body sees); the use site (after the
    definition) rebinds the `use` names; after the instantiation the probe name is printed."""
    L = []
    for k, v in defs.items():
        L.append("local %s <comptime> = %d" % (NAMES[k - 1], v))
    L.append("## local make_h = generalize(function(T)")
    for k, v in body.items():
        L.append("  local %s <comptime> = %d" % (NAMES[k - 1], v))
    reads = [k for k in defs if k not in body]
    if extra is not None and extra not in reads and extra not in body:
        reads = reads + [extra]           # a name the body reads although it may be unbound at definition time
    reads = reads + list(body)
    L.append("  local HT = @record{ v: #[T]#%s }" % "".join(", f%d: [%s]byte" % (k, NAMES[k - 1]) for k in reads))
    L.append("  ## return HT")
    L.append("## end)")
    L.append("local H: type = #[make_h]#")
    for k, v in use.items():
        L.append("local %s <comptime> = %d" % (NAMES[k - 1], v))
    L.append("local H1: type = @H(integer)")
    L.append("do local h: H1; print('inside'%s) end" % "".join(", #h.f%d" % k for k in reads))
    if probe_after is not None:
        L.append("print('after', %s)" % NAMES[probe_after - 1])
    return "\n".join(L) + "\n"


# ---------------------------------------------------------------- injection order of hygienized macros
def gen_inject(rng, nested=True):
    """Returns (macros, items): macros[h] = body = list of 'e' | ('c', j) with j < h (defined earlier);
    items = top-level sequence of 'p' (plain statement) | ('d', h) (definition of macro h) | ('c', h)."""
    nm = rng.randint(1, 4)
    macros = []
    for h in range(nm):
        body = []
        for _ in range(rng.randint(1, 4)):
            if nested and h and rng.random() < .4:
                body.append(("c", rng.randrange(h)))
            else:
                body.append("e")
        macros.append(body)
    items = []
    defined = 0
    while defined < nm or rng.random() < .7:
        c = rng.random()
        if defined < nm and c < .45:
            items.append(("d", defined))
            defined += 1
        elif defined and c < .8:
            items.append(("c", rng.randrange(defined)))
        else:
            items.append("p")
        if len(items) > 14:
            break
    for h in range(defined, nm):
        items.append(("d", h))
    if not any(isinstance(i, tuple) and i[0] == "c" for i in items):
        items.append(("c", nm - 1))
    return macros, items


def inject_program(macros, items):
    L = ["## local cnt = 0", "## local function nid() cnt = cnt + 1; return cnt end"]
    for it in items:
        if it == "p":
            L.append("print(#[nid()]#)")
        elif it[0] == "d":
            h = it[1]
            L.append("## local M%d = hygienize(function()" % h)
            for b in macros[h]:
                L.append("  print(#[nid()]#)" if b == "e" else "  ## M%d()" % b[1])
            L.append("## end)")
        else:
            L.append("## M%d()" % it[1])
    return "\n".join(L) + "\n"


def inject_case(macros, items):
    """Model input with the ids the preprocessor will hand out (emission order), and per top-level
    call the ids its own body emits (for the own-order oracle)."""
    cnt = [0]
    own = []

    def tree(h, top):
        toks = ["c", str(h), str(len(macros[h]))]
        mine = []
        for b in macros[h]:
            if b == "e":
                cnt[0] += 1
                toks += ["e", str(cnt[0])]
                mine.append(cnt[0])
            else:
                toks += tree(b[1], False)
        own.append(mine)
        return toks
    toks = ["inject"]
    for it in items:
        if it == "p":
            cnt[0] += 1
            toks += ["p", str(cnt[0])]
        elif it[0] == "d":
            toks += ["d", str(it[1])]
        else:
            toks += tree(it[1], True)
    return " ".join(toks), own


def hygiene_nested_program(outer, inner, use, reads):
    """The generic is created inside a do-block (and kept in a preprocessor variable); `outer` names
    are file-level, `inner` names belong to the do-block, `use` rebinds file-level names afterwards."""
    L = ["local %s <comptime> = %d" % (NAMES[k - 1], v) for k, v in outer.items()]
    L.append("## local make_n")
    L.append("do")
    for k, v in inner.items():
        L.append("  local %s <comptime> = %d" % (NAMES[k - 1], v))
    L.append("  ## make_n = generalize(function(T)")
    L.append("    local NT = @record{ v: #[T]#%s }" % "".join(", f%d: [%s]byte" % (k, NAMES[k - 1]) for k in reads))
    L.append("    ## return NT")
    L.append("  ## end)")
    L.append("end")
    for k, v in use.items():
        L.append("local %s <comptime> = %d" % (NAMES[k - 1], v))
    L.append("local N0: type = #[make_n]#")
    L.append("local N1: type = @N0(integer)")
    L.append("do local h: N1; print('inside'%s) end" % "".join(", #h.f%d" % k for k in reads))
    return "\n".join(L) + "\n"


# ---------------------------------------------------------------- comptime arguments of every kind, falsy ones included
# (source text, model type id, raw value id, Lua-equality class id (what `==` in poly_args_matches sees), text of the value)
POLYC_ARGS = [
    ("false", 5, 50, 50, "false"), ("true", 5, 51, 51, "true"),
    ("0", 1, 10, 10, "0"), ("1", 1, 11, 11, "1"),
    ("''", 6, 60, 60, ""), ("'a'", 6, 61, 61, "a"),
    ("nil", 7, 70, 70, "nil"),
    ("0.0", 2, 20, 20, "0.0"), ("-0.0", 2, 21, 20, "-0.0"), ("1.5", 2, 22, 22, "1.5"),
    ("(0.0/0.0)", 2, 23, 23, "nan"),      # NaN: the text is what the interpreter prints (set by the check); a ~= a
]
NAN_ARG = 10


def polyc_program(calls):
    """calls: indices into POLYC_ARGS.  One polymorphic function whose body is the text of its comptime argument."""
    L = ["local function q(c: auto <comptime>, x: integer)",
         "  return #[tostring(c.value)]#",
         "end"]
    for i, a in enumerate(calls):
        L.append("print('call', %d, q(%s, %d))" % (i, POLYC_ARGS[a][0], i))
    return "\n".join(L) + "\n"


def polyc_expanded(calls):
    """the hand expansion: one function per distinct comptime argument"""
    L, seen = [], {}
    for a in calls:
        if a not in seen:
            seen[a] = len(seen)
            L.append("local function q_%d(x: integer) return %s end" % (seen[a], repr(POLYC_ARGS[a][4]).replace('"', "'")))
    for i, a in enumerate(calls):
        L.append("print('call', %d, q_%d(%d))" % (i, seen[a], i))
    return "\n".join(L) + "\n"
