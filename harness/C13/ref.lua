-- C13 reference side: evaluates the same case file with the string/utf8/math library of the bundled
-- Lua 5.4 interpreter (rebuilt from /repo/src).  One result line per case; a raised error prints
-- "!error <message>".  Output syntax mirrors harness/C13/driver.nelua; Lua's nil/fail results are
-- printed as "nil" and mapped by checks/C13.py to Nelua's documented renderings.
local function tostr(tok)
  return (tok:sub(2):gsub('%x%x', function(h) return string.char(tonumber(h, 16)) end))
end
local function toint(tok)
  local neg = tok:sub(1,1) == '-'
  local v = 0
  for i = (neg and 2 or 1), #tok do v = v * 10 + (tok:byte(i) - 48) end  -- wraps like the driver
  if neg then v = -v end
  return v
end
local function tofloat(tok)
  local v = 0
  for i = 2, #tok do v = (v << 4) | tonumber(tok:sub(i,i), 16) end
  return (string.unpack('<d', string.pack('<I8', v)))
end
local function hex(s)
  return 'x' .. (s:gsub('.', function(c) return string.format('%02x', c:byte()) end))
end
local function int(v)
  if math.type(v) == 'integer' then return string.format('%d', v) end
  return 'notinteger:' .. tostring(v)
end
local function flt(v)
  if math.type(v) == 'integer' then v = v + 0.0 end
  return 'f' .. string.format('%016x', (string.unpack('<I8', string.pack('<d', v))))
end

local UNPACK_FORMATS = {}
for _, e in ipairs{'<', '>'} do
  for n = 1, 16 do
    table.insert(UNPACK_FORMATS, e .. 'i' .. n)
    table.insert(UNPACK_FORMATS, e .. 'I' .. n)
  end
end
for _, f in ipairs{'<b', '<B', '<h', '>h', '<H', '>H', '<l', '>l', '<j', '>j', '<J', '>J', '<T', '>T',
                   '!4 <i1 i4', '!8 >i1 i8', '!2 <i1 i8', '!<i1 i3', '<i1 Xi4 i2', '<s1', '>s2', '<s4', 'z', 'c3', '<i2 x i2'} do
  table.insert(UNPACK_FORMATS, f)
end

-- unsigned decimal rendering of a Lua integer read as uint64
local function udec(v)
  if v >= 0 then return string.format('%d', v) end
  -- v + 2^64 in decimal, by long division on two halves
  local hi, lo = (v >> 32) & 0xffffffff, v & 0xffffffff
  local digits = {}
  while hi ~= 0 or lo ~= 0 do
    local r = hi % 10
    hi = hi // 10
    local cur = (r << 32) | lo
    lo = cur // 10
    digits[#digits + 1] = string.char(48 + cur % 10)
  end
  return (#digits == 0) and '0' or table.concat(digits):reverse()
end

local ops = {}
function ops.len(a) return int(#tostr(a[1])) end
function ops.sub(a) return hex(tostr(a[1]):sub(toint(a[2]), toint(a[3]))) end
function ops.sub1(a) return hex(tostr(a[1]):sub(toint(a[2]))) end
ops.subview = ops.sub
function ops.byte(a) local b = tostr(a[1]):byte(toint(a[2])) return b and int(b) or 'nil' end
function ops.lt(a) return tostring(tostr(a[1]) < tostr(a[2])) end
function ops.le(a) return tostring(tostr(a[1]) <= tostr(a[2])) end
function ops.eq(a) return tostring(tostr(a[1]) == tostr(a[2])) end
function ops.concat(a) return hex(tostr(a[1]) .. tostr(a[2])) end
function ops.rep(a) return hex(tostr(a[1]):rep(toint(a[2]))) end
function ops.repsep(a) return hex(tostr(a[1]):rep(toint(a[2]), tostr(a[3]))) end
function ops.reverse(a) return hex(tostr(a[1]):reverse()) end
function ops.upper(a) return hex(tostr(a[1]):upper()) end
function ops.lower(a) return hex(tostr(a[1]):lower()) end
function ops.find(a)
  local s, e = tostr(a[1]):find(tostr(a[2]), toint(a[3]), toint(a[4]) ~= 0)
  if not s then return 'nil' end
  return int(s) .. ' ' .. int(e)
end
local function caplist(t, sep)
  local o = {}
  for i = 1, t.n do
    local v = t[i]
    o[i] = (math.type(v) == 'integer') and ('p' .. v) or hex(v)
  end
  return table.concat(o, sep)
end
function ops.match(a)
  local t = table.pack(tostr(a[1]):match(tostr(a[2]), toint(a[3])))
  if t[1] == nil then return 'nil' end
  return 'true ' .. caplist(t, ' ')
end
function ops.gmatch(a)
  local o = {}
  for a1, a2, a3, a4, a5, a6, a7, a8, a9, a10 in tostr(a[1]):gmatch(tostr(a[2])) do
    local t = table.pack(a1, a2, a3, a4, a5, a6, a7, a8, a9, a10)
    while t.n > 1 and t[t.n] == nil do t.n = t.n - 1 end
    o[#o + 1] = caplist(t, ',')
  end
  return '[' .. table.concat(o, ' ') .. ']'
end
function ops.gsub(a)
  local r, n = tostr(a[1]):gsub(tostr(a[2]), tostr(a[3]), toint(a[4]))
  return hex(r) .. ' ' .. int(n)
end
function ops.gsub3(a)
  local r, n = tostr(a[1]):gsub(tostr(a[2]), tostr(a[3]))
  return hex(r) .. ' ' .. int(n)
end
function ops.utf8char(a) return hex(utf8.char(toint(a[1]))) end
function ops.utf8char2(a) return hex(utf8.char(toint(a[1]), toint(a[2]))) end
function ops.utf8codepoint(a) return int((utf8.codepoint(tostr(a[1]), toint(a[2]), toint(a[2]), toint(a[3]) ~= 0))) end
function ops.utf8len(a)
  local n, p = utf8.len(tostr(a[1]), toint(a[2]), toint(a[3]), toint(a[4]) ~= 0)
  if n == nil then return 'fail ' .. int(p) end
  return int(n)
end
function ops.utf8offset(a) local r = utf8.offset(tostr(a[1]), toint(a[2]), toint(a[3])) return r and int(r) or 'nil' end
function ops.utf8offset2(a) local r = utf8.offset(tostr(a[1]), toint(a[2])) return r and int(r) or 'nil' end
function ops.utf8codes(a)
  local o = {}
  for p, c in utf8.codes(tostr(a[1]), toint(a[2]) ~= 0) do o[#o + 1] = int(p) .. ':' .. int(c) end
  return '[' .. table.concat(o, ' ') .. ']'
end
function ops.pack1(a) return hex(string.pack(tostr(a[1]), toint(a[2]))) end
function ops.pack2(a) return hex(string.pack(tostr(a[1]), toint(a[2]), toint(a[3]))) end
function ops.packs(a) return hex(string.pack(tostr(a[1]), tostr(a[2]))) end
function ops.packsize(a) return int(string.packsize(tostr(a[1]))) end
function ops.fmt0(a) return hex(string.format(tostr(a[1]))) end
function ops.fmti(a) return hex(string.format(tostr(a[1]), toint(a[2]))) end
function ops.fmtii(a) return hex(string.format(tostr(a[1]), toint(a[2]), toint(a[3]))) end
function ops.fmts(a) return hex(string.format(tostr(a[1]), tostr(a[2]))) end
function ops.fmtis(a) return hex(string.format(tostr(a[1]), toint(a[2]), tostr(a[3]))) end
function ops.fmtsi(a) return hex(string.format(tostr(a[1]), tostr(a[2]), toint(a[3]))) end
function ops.fmtf(a) return hex(string.format(tostr(a[1]), tofloat(a[2]))) end
function ops.unpack(a)
  local fmt = UNPACK_FORMATS[toint(a[1])]
  if not fmt then return '?unknown-format' end
  local t = table.pack(string.unpack(fmt, tostr(a[2]), toint(a[3])))
  local o = {}
  for i = 1, t.n do
    local v = t[i]
    if type(v) == 'string' then o[i] = hex(v)
    elseif i < t.n and fmt:find('[IBHLJT]') then o[i] = udec(v)
    else o[i] = int(v) end
  end
  return table.concat(o, ' ')
end
function ops.abs(a) return int(math.abs(toint(a[1]))) end
function ops.fmod(a) return int(math.fmod(toint(a[1]), toint(a[2]))) end
function ops.ult(a) return tostring(math.ult(toint(a[1]), toint(a[2]))) end
function ops.max2(a) return int(math.max(toint(a[1]), toint(a[2]))) end
function ops.min2(a) return int(math.min(toint(a[1]), toint(a[2]))) end
function ops.max3(a) return int(math.max(toint(a[1]), toint(a[2]), toint(a[3]))) end
function ops.min3(a) return int(math.min(toint(a[1]), toint(a[2]), toint(a[3]))) end
function ops.floor(a) return int(math.floor(toint(a[1]))) end
function ops.ceil(a) return int(math.ceil(toint(a[1]))) end
function ops.tointeger(a) local r = math.tointeger(toint(a[1])) return r and int(r) or 'nil' end
function ops.fmax2(a) return flt(math.max(tofloat(a[1]), tofloat(a[2]))) end
function ops.fmin2(a) return flt(math.min(tofloat(a[1]), tofloat(a[2]))) end
function ops.fmax3(a) return flt(math.max(tofloat(a[1]), tofloat(a[2]), tofloat(a[3]))) end
function ops.fmin3(a) return flt(math.min(tofloat(a[1]), tofloat(a[2]), tofloat(a[3]))) end
local function intorflt(v) if math.type(v) == 'integer' then return 'i' .. int(v) end return flt(v) end
function ops.ffloor(a) return intorflt(math.floor(tofloat(a[1]))) end
function ops.fceil(a) return intorflt(math.ceil(tofloat(a[1]))) end
function ops.ffmod(a) return flt(math.fmod(tofloat(a[1]), tofloat(a[2]))) end
function ops.fabs(a) return flt(math.abs(tofloat(a[1]))) end

for line in io.lines() do
  local a = {}
  for w in line:gmatch('%S+') do a[#a + 1] = w end
  if #a > 0 then
    local f = ops[a[1]]
    if not f then
      print('?unknown-op')
    else
      table.remove(a, 1)
      local ok, r = pcall(f, a)
      if ok then print(r) else print('!error ' .. tostring(r):gsub('\n', ' ')) end
    end
  end
end
