"""Translator for C13: /repo sources -> coq/C13/Gen.v (plain text scraping, no evaluation of the code).

* lib/detail/strchar.nelua: the one-line bodies of tolower/toupper/is* (non-locale branch) are parsed
  with a tiny operator-precedence parser for the expression subset they use and re-emitted as Gallina
  over Z (uint32 subtraction wraps explicitly);
* lib/detail/strpatt.nelua: MAX_MATCH_CALLS, capture array size, CAP_* constants;
* lib/string.nelua: gmatch's MAX_CAPTURES;
* lib/utf8.nelua: MAXUNICODE, MAXUTF, limits[] table, the bound checked by utf8esc;
* src/lua/lstrlib.c, lutf8lib.c: MAXCCALLS, LUA_MAXCAPTURES, MAXUNICODE/MAXUTF/limits of the
  reference (spec side).
A scrape that finds nothing raises."""
import re

# ---------------------------------------------------------------- expression parser (strchar bodies)
TOK = re.compile(r"\s*(?:(\(@uint32\))|('(?:\\.|[^'\\])'_b)|(0x[0-9a-fA-F]+|\d+)|(strchar\.\w+)|(\band\b|\bor\b|\bnot\b)|(==|~=|<=|>=|<|>|\||&|-|\+|\(|\))|(\w+))")
ESC = {"t": 9, "n": 10, "v": 11, "f": 12, "r": 13, "0": 0, "a": 7, "b": 8, "\\": 92, "'": 39}


def tokenize(s):
    out = []
    pos = 0
    s = s.strip()
    while pos < len(s):
        m = TOK.match(s, pos)
        if not m or m.end() == pos:
            raise RuntimeError("strchar translator: cannot tokenize %r at %d" % (s, pos))
        pos = m.end()
        if m.group(1): out.append(("cast", "u32"))
        elif m.group(2):
            body = m.group(2)[1:-3]
            out.append(("num", ESC[body[1]] if body.startswith("\\") else ord(body)))
        elif m.group(3): out.append(("num", int(m.group(3), 0)))
        elif m.group(4): out.append(("call", m.group(4).split(".")[1]))
        elif m.group(5): out.append(("op", m.group(5)))
        elif m.group(6): out.append(("op", m.group(6)))
        else: out.append(("id", m.group(7)))
    return out


# Lua/Nelua binary precedences (low to high): or < and < comparison < | < & < + -
PREC = {"or": 1, "and": 2, "<": 3, ">": 3, "<=": 3, ">=": 3, "==": 3, "~=": 3, "|": 4, "&": 6, "+": 9, "-": 9}


class P:
    def __init__(self, toks):
        self.t = toks
        self.i = 0

    def peek(self):
        return self.t[self.i] if self.i < len(self.t) else (None, None)

    def next(self):
        x = self.peek()
        self.i += 1
        return x

    def expr(self, minp=0):
        lhs = self.unary()
        while True:
            k, v = self.peek()
            if k != "op" or v not in PREC or PREC[v] <= minp:
                return lhs
            self.next()
            rhs = self.expr(PREC[v])
            lhs = ("bin", v, lhs, rhs)

    def unary(self):
        k, v = self.next()
        if k == "op" and v == "not":
            return ("not", self.expr(8))   # unary binds tighter than comparison/bitwise, looser than nothing used here
        if k == "cast":
            k2, v2 = self.next()
            assert (k2, v2) == ("op", "("), "cast must be applied to a parenthesis"
            e = self.expr()
            assert self.next() == ("op", ")")
            return ("u32", e)
        if k == "num":
            return ("num", v)
        if k == "id":
            return ("id", v)
        if k == "call":
            assert self.next() == ("op", "(")
            e = self.expr()
            assert self.next() == ("op", ")")
            return ("call", v, e)
        if k == "op" and v == "(":
            e = self.expr()
            assert self.next() == ("op", ")")
            return e
        raise RuntimeError("strchar translator: unexpected token %r" % ((k, v),))


def has_u32(e):
    if e[0] == "u32": return True
    if e[0] == "bin": return has_u32(e[2]) or has_u32(e[3])
    return False


def emit(e):
    """-> (gallina, type) with type in {'Z','bool'}"""
    k = e[0]
    if k == "num": return "%d" % e[1], "Z"
    if k == "id":
        if e[1] != "c": raise RuntimeError("strchar translator: unknown identifier " + e[1])
        return "c", "Z"
    if k == "u32":
        g, t = emit(e[1]); assert t == "Z"
        return "(u32 %s)" % g, "Z"
    if k == "call":
        g, t = emit(e[2]); assert t == "Z"
        return "(sc_%s %s)" % (e[1], g), ("bool" if e[1].startswith("is") else "Z")
    if k == "not":
        g, t = emit(e[1]); assert t == "bool"
        return "(negb %s)" % g, "bool"
    op, a, b = e[1], e[2], e[3]
    if op == "or" and a[0] == "bin" and a[1] == "and":
        gc, tc = emit(a[2]); gy, ty = emit(a[3]); gz, tz = emit(b)
        if tc == "bool" and ty == "Z" and tz == "Z":       # cond and y or z  (y is a number: never falsy)
            return "(if %s then %s else %s)" % (gc, gy, gz), "Z"
    ga, ta = emit(a); gb, tb = emit(b)
    if op in ("or", "and"):
        assert ta == "bool" and tb == "bool", "boolean operator on non-boolean"
        return "(%s %s %s)" % ("orb" if op == "or" else "andb", ga, gb), "bool"
    assert ta == "Z" and tb == "Z"
    if op == "-":
        if not has_u32(a): raise RuntimeError("strchar translator: subtraction without a uint32 operand")
        return "(u32 (%s - %s))" % (ga, gb), "Z"          # uint32 arithmetic wraps
    if op == "+":
        if not has_u32(a): raise RuntimeError("strchar translator: addition without a uint32 operand")
        return "(u32 (%s + %s))" % (ga, gb), "Z"
    if op == "|": return "(Z.lor %s %s)" % (ga, gb), "Z"
    if op == "&": return "(Z.land %s %s)" % (ga, gb), "Z"
    cmp = {"<": "Z.ltb %s %s", "<=": "Z.leb %s %s", ">": "Z.ltb %s %s", ">=": "Z.leb %s %s", "==": "Z.eqb %s %s"}
    if op in ("<", "<=", "=="): return "(" + cmp[op] % (ga, gb) + ")", "bool"
    if op in (">", ">="): return "(" + cmp[op] % (gb, ga) + ")", "bool"
    if op == "~=": return "(negb (Z.eqb %s %s))" % (ga, gb), "bool"
    raise RuntimeError("strchar translator: operator " + op)


STRCHAR_FUNCS = ["tolower", "toupper", "isalpha", "islower", "isupper", "isdigit", "isxdigit", "iscntrl",
                 "isgraph", "isspace", "isalnum", "ispunct"]


def translate_strchar(src):
    head = src.split("## else")[0]          # the non-locale branch
    if "## if not pragmas.useclocale then" not in head:
        raise RuntimeError("strchar.nelua: cannot find the non-locale branch")
    defs = []
    found = {}
    for name in STRCHAR_FUNCS:
        m = re.search(r"function strchar\.%s\(c: byte\): (byte|boolean) <inline>\s*\n\s*return ([^\n]+)\n\s*end" % name, head)
        if not m:
            raise RuntimeError("strchar.nelua: cannot find a one-line body for " + name)
        ast = P(tokenize(m.group(2)))
        tree = ast.expr()
        if ast.i != len(ast.t):
            raise RuntimeError("strchar translator: trailing tokens in " + name)
        g, t = emit(tree)
        want = "Z" if m.group(1) == "byte" else "bool"
        if t != want:
            raise RuntimeError("strchar translator: %s has type %s, expected %s" % (name, t, want))
        defs.append("Definition sc_%s (c : Z) : %s := %s." % (name, want, g))
        found[name] = m.group(2).strip()
    return defs, found


def need(pattern, text, what, flags=0):
    m = re.search(pattern, text, flags)
    if not m:
        raise RuntimeError("cannot find %s" % what)
    return m


def cnum(s):
    s = re.sub(r"_[ui]\d*$", "", s.strip())
    return int(s.rstrip("uUlL"), 0)


def generate(read):
    """read(relpath) -> text.  Returns (gen_v_text, scraped_dict)."""
    out = ["(* GENERATED by harness/C13/c13gen.py from /repo - do not edit *)",
           "From C13 Require Import Defs.", "Local Open Scope Z_scope.", ""]
    info = {}
    defs, found = translate_strchar(read("lib/detail/strchar.nelua"))
    # order: callees first
    order = ["tolower", "toupper", "isalpha", "islower", "isupper", "isdigit", "isxdigit", "iscntrl", "isgraph",
             "isspace", "isalnum", "ispunct"]
    byname = {d.split()[1][3:]: d for d in defs}
    out.append("(* lib/detail/strchar.nelua, branch without pragma useclocale *)")
    out += [byname[n] for n in order]
    info["strchar"] = found

    sp = read("lib/detail/strpatt.nelua")
    info["MAX_MATCH_CALLS"] = int(need(r"local MAX_MATCH_CALLS: isize <comptime> = (\d+)", sp, "MAX_MATCH_CALLS").group(1))
    info["CAP_UNFINISHED"] = int(need(r"local CAP_UNFINISHED: isize <comptime> = (-?\d+)", sp, "CAP_UNFINISHED").group(1))
    info["CAP_POSITION"] = int(need(r"local CAP_POSITION: isize <comptime> = (-?\d+)", sp, "CAP_POSITION").group(1))
    info["NL_MAXCAPTURES"] = int(need(r"capture: \[(\d+)\]StrPattCapture", sp, "capture array size").group(1))
    st = read("lib/string.nelua")
    info["GMATCH_MAX_CAPTURES"] = int(need(r"local MAX_CAPTURES <comptime> = (\d+)", st, "gmatch MAX_CAPTURES").group(1))
    info["gmatch_has_lastmatch"] = bool(re.search(r"function string\.gmatch\(.*?state\.lastend = endpos \+ 1.*?\n-- Like `string\.gmatch`", st, re.S))
    info["gmatch_caret_is_literal"] = st.count("state.ms.anchor = false") >= 2
    u8 = read("lib/utf8.nelua")
    info["NL_MAXUNICODE"] = cnum(need(r"local MAXUNICODE: uint32 <comptime> = (\w+)", u8, "MAXUNICODE").group(1))
    info["NL_MAXUTF"] = cnum(need(r"local MAXUTF: uint32 <comptime> = (\w+)", u8, "MAXUTF").group(1))
    lim = need(r"local limits: \[6\]uint32 = \{([^}]*)\}", u8, "utf8 limits").group(1)
    lims = []
    for x in lim.split(","):
        x = x.strip()
        lims.append(0xFFFFFFFF if x.startswith("~0") else cnum(x))
    info["NL_UTF8_LIMITS"] = lims
    info["NL_UTF8ESC_MAX"] = cnum(need(r"check\(x <= (\w+)\)", u8, "utf8esc bound").group(1))
    mm = re.findall(r"check\(va?l? >= 0 and va?l? <= (\w+), 'value out of range'\)", u8)
    if len(mm) != 2 or len(set(mm)) != 1:
        raise RuntimeError("cannot find the two range checks of utf8.char (before the cast to uint32)")
    info["NL_UTF8CHAR_MAX"] = cnum(mm[0])
    sur = need(r"\((0x[0-9A-Fa-f]+) <= code and code <= (0x[0-9A-Fa-f]+)\)", u8, "surrogate range")
    info["NL_SURR_LO"], info["NL_SURR_HI"] = int(sur.group(1), 16), int(sur.group(2), 16)

    ls = read("src/lua/lstrlib.c")
    info["LUA_MAXCCALLS"] = int(need(r"#define MAXCCALLS\s+(\d+)", ls, "MAXCCALLS").group(1))
    info["LUA_MAXCAPTURES"] = int(need(r"#define LUA_MAXCAPTURES\s+(\d+)", ls, "LUA_MAXCAPTURES").group(1))
    if not re.search(r"#define MAXSIZE\s*\\\s*\n\s*\(sizeof\(size_t\) < sizeof\(int\) \? MAX_SIZET : \(size_t\)\(INT_MAX\)\)", ls):
        raise RuntimeError("cannot find MAXSIZE = INT_MAX in lstrlib.c")
    info["LUA_MAXSIZE"] = 2**31 - 1
    lu = read("src/lua/lutf8lib.c")
    info["LUA_MAXUNICODE"] = cnum(need(r"#define MAXUNICODE\s+(\w+)", lu, "lutf8lib MAXUNICODE").group(1))
    info["LUA_MAXUTF"] = cnum(need(r"#define MAXUTF\s+(\w+)", lu, "lutf8lib MAXUTF").group(1))
    ll = need(r"static const utfint limits\[\] =\s*\{([^}]*)\}", lu, "lutf8lib limits").group(1)
    llims = []
    for x in ll.split(","):
        x = x.strip()
        llims.append(0xFFFFFFFF if x.startswith("~") else cnum(x))
    info["LUA_UTF8_LIMITS"] = llims
    info["lua_gmatch_has_lastmatch"] = "gm->lastmatch" in ls

    out.append("")
    for k in ["MAX_MATCH_CALLS", "CAP_UNFINISHED", "CAP_POSITION", "NL_MAXCAPTURES", "GMATCH_MAX_CAPTURES",
              "NL_MAXUNICODE", "NL_MAXUTF", "NL_UTF8ESC_MAX", "NL_UTF8CHAR_MAX", "NL_SURR_LO", "NL_SURR_HI",
              "LUA_MAXCCALLS", "LUA_MAXCAPTURES", "LUA_MAXSIZE", "LUA_MAXUNICODE", "LUA_MAXUTF"]:
        out.append("Definition %s : Z := (%d)%%Z." % (k, info[k]))
    out.append("Definition NL_UTF8_LIMITS : list Z := [%s]." % "; ".join(str(x) for x in lims))
    out.append("Definition LUA_UTF8_LIMITS : list Z := [%s]." % "; ".join(str(x) for x in llims))
    out.append("(* does string.gmatch keep a lastmatch position (Lua 5.4 does)? *)")
    out.append("Definition NL_GMATCH_HAS_LASTMATCH : bool := %s." % ("true" if info["gmatch_has_lastmatch"] else "false"))
    out.append("")
    # string.format (lib/stringbuilder.nelua formatarg): the size bound handed to every snprintf call
    sb = read("lib/stringbuilder.nelua")
    m = re.search(r"local MAX_ITEM: usize <comptime> = (\d+)", sb)
    if not m:
        raise RuntimeError("stringbuilder.nelua: cannot find MAX_ITEM")
    max_item = int(m.group(1))
    fa = re.search(r"local function formatarg\(.*?\n  end\n", sb, re.S)
    if not fa:
        raise RuntimeError("stringbuilder.nelua: cannot find formatarg")
    calls = re.findall(r"snprintf\(\(@cstring\)\(buf\.data\), ([^,]+), ([^,]+), ([^)]+)\)", fa.group(0))
    s_calls = [c for c in calls if c[2].strip() == "cs"]
    num_calls = [c for c in calls if c[2].strip() != "cs"]
    if len(s_calls) != 1 or len(num_calls) < 5:
        raise RuntimeError("stringbuilder.nelua formatarg: unexpected snprintf call sites %r" % (calls,))
    # the %s site prepares max(#s + 1, MAX_ITEM) bytes and must hand snprintf the size of what it prepared
    s_prep = re.search(r"local slen: usize = s\.size \+ 1\b", fa.group(0)) is not None and \
        re.search(r"if slen < MAX_ITEM then slen = MAX_ITEM end\s*\n\s*buf = self:prepare\(slen\)\s*\n\s*if buf\.size < slen then", fa.group(0)) is not None
    info["fmt_max_item"] = max_item
    info["fmt_s_site_bound"] = s_calls[0][0].strip()
    info["fmt_num_site_bounds"] = sorted(set(c[0].strip() for c in num_calls))
    out.append("(* string.format: MAX_ITEM; the %%s call site of snprintf is given buf.size (%s) of a buffer prepared with" % s_calls[0][0].strip())
    out.append("   max(#s + 1, MAX_ITEM) bytes (%s); every other call site is given MAX_ITEM (%s) *)" % (s_prep, ", ".join(info["fmt_num_site_bounds"])))
    out.append("Definition NL_MAX_ITEM : Z := (%d)%%Z." % max_item)
    out.append("Definition FMT_S_SITE_BOUND_IS_BUF_SIZE : bool := %s." % ("true" if s_calls[0][0].strip() == "buf.size" and s_prep else "false"))
    out.append("Definition FMT_NUM_SITES_BOUND_IS_MAX_ITEM : bool := %s." % ("true" if info["fmt_num_site_bounds"] == ["MAX_ITEM"] else "false"))
    out.append("")
    return "\n".join(out), info
