-- Reads "chain<TAB>parenthesised" lines; prints 1 when the reference parser builds the same code for
-- both (identical stripped bytecode: operands are global names, so nothing is folded), else 0.
for line in io.lines() do
  local a, b = line:match('^(.-)\t(.*)$')
  if a then
    local f1, e1 = load('return ' .. a)
    local f2, e2 = load('return ' .. b)
    if not f1 or not f2 then
      print('loaderror ' .. tostring(e1 or e2))
    else
      print(string.dump(f1, true) == string.dump(f2, true) and '1' or '0')
    end
  end
end
