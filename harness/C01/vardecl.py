"""Multi-variable declarations `local v1, .., vn = e1, .., em` whose values print when they are evaluated
(shared by checks/C01.py and checks/C09.py; the model is coq/C09/VarDecl.v).

A case is a list of slots (used, kind, ...):
   (used, 'P', e)       run-time value: a call of a function that prints e
   (used, 'C', e)       compile-time constant
   (used, 'R', k, e)    k-th result of the trailing multiple-return call e
`used` = the variable is read afterwards (an unread variable is dropped by dead code elimination).
form: 'func' (declaration inside a function), 'do' (inside a do block of the main chunk), 'top' (main chunk).
"""


def gen_case(rng):
    slots = []
    e = 0
    nplain = rng.randint(1, 4)
    for _ in range(nplain):
        e += 1
        used = rng.random() < 0.55
        slots.append((used, 'P' if rng.random() < 0.8 else 'C', e))
    if rng.random() < 0.4:
        e += 1
        for k in range(1, rng.choice([2, 2, 3]) + 1):
            slots.append((rng.random() < 0.6, 'R', k, e))
    if not any(s[0] for s in slots):
        i = rng.randrange(len(slots))
        slots[i] = (True,) + slots[i][1:]
    return {"slots": slots, "form": rng.choice(["func", "func", "do", "top"]), "ty": rng.choice(["integer", "integer", "number"])}


def model_line(case):
    out = []
    for s in case["slots"]:
        u = "u" if s[0] else "d"
        if s[1] == 'R':
            out.append("%sR%d:%d" % (u, s[2], s[3]))
        else:
            out.append("%s%s%d" % (u, s[1], s[2]))
    return "vd " + " ".join(out)


def programs(case, k):
    """(nelua text, lua text) of case number k; every evaluated value prints `e <k> <id>`, the case ends by printing
    the variables that are read"""
    slots, ty = case["slots"], case["ty"]
    lit = (lambda v: "%d.5" % v) if ty == "number" else (lambda v: "%d" % v)
    n, l = [], []
    vals, seen_call = [], set()
    for s in slots:
        if s[1] == 'P':
            f = "p%d_%d" % (k, s[2])
            n.append("local function %s(): %s print('e', %d, %d) return %s end" % (f, ty, k, s[2], lit(s[2])))
            l.append("local function %s() print('e', %d, %d) return %s end" % (f, k, s[2], lit(s[2])))
            vals.append(f + "()")
        elif s[1] == 'C':
            vals.append(lit(100 + s[2]))
        elif s[3] not in seen_call:
            seen_call.add(s[3])
            nres = len([x for x in slots if x[1] == 'R'])
            f = "t%d_%d" % (k, s[3])
            rets = ", ".join(lit(10 * s[3] + i) for i in range(1, nres + 1))
            n.append("local function %s(): (%s) print('e', %d, %d) return %s end" % (f, ", ".join([ty] * nres), k, s[3], rets))
            l.append("local function %s() print('e', %d, %d) return %s end" % (f, k, s[3], rets))
            vals.append(f + "()")
    names = ["w%d_%d" % (k, i) for i in range(len(slots))]
    decl = "local %s = %s" % (", ".join(names), ", ".join(vals))
    used = [nm for nm, s in zip(names, slots) if s[0]]
    show = "print('r', %d, %s)" % (k, ", ".join(used))
    if case["form"] == "func":
        body = ["local function case%d()" % k, "  " + decl, "  " + show, "end", "case%d()" % k]
    elif case["form"] == "do":
        body = ["do", "  " + decl, "  " + show, "end"]
    else:
        body = [decl, show]
    n += body
    l += body
    return "\n".join(n) + "\n", "\n".join(l) + "\n"


def batch_programs(cases):
    n, l = [], []
    for k, c in enumerate(cases):
        a, b = programs(c, k)
        n.append(a)
        l.append("do\n" + b + "end\n")       # Lua allows 200 locals per function: one block per case
    return "".join(n), "".join(l)


def parse_output(text, ncases):
    """-> per case: (effect ids in order, result line)"""
    ev = [[] for _ in range(ncases)]
    res = [None] * ncases
    for line in text.split("\n"):
        p = line.split("\t")
        if len(p) >= 3 and p[0] == "e":
            ev[int(p[1])].append(p[2])
        elif len(p) >= 2 and p[0] == "r":
            res[int(p[1])] = "\t".join(p[2:])
    return [(",".join(e), r) for e, r in zip(ev, res)]


def parse_model(line):
    d = dict(x.split("=", 1) for x in line.split())
    return d
