"""Text scrapers shared by checks/C01.py, C03.py and C09.py (no evaluation of repo code).

scrape_ladder   : the operator ladder of lualib/nelua/syntaxdefs.lua  (rule order, operand rules)
scrape_luaprio  : priority[] / UNARY_PRIORITY of src/lua/lparser.c with the BinOpr order of lcode.h
scrape_cflags   : compilers_flags.<cc>.cflags_* of lualib/nelua/cdefs.lua with inheritance resolved
"""
import re

# Nelua operator name -> constructor of coq/C01/Ops.v
BINOPS = {
    "or": "OpOr", "and": "OpAnd", "lt": "OpLt", "gt": "OpGt", "le": "OpLe", "ge": "OpGe",
    "eq": "OpEq", "ne": "OpNe", "bor": "OpBor", "bxor": "OpBxor", "band": "OpBand",
    "shl": "OpShl", "shr": "OpShr", "concat": "OpConcat", "add": "OpAdd", "sub": "OpSub",
    "mul": "OpMul", "div": "OpDiv", "idiv": "OpIdiv", "mod": "OpMod", "pow": "OpPow",
}
# the spelling Lua 5.4 uses for each shared operator
LUA_TOKEN = {
    "or": "or", "and": "and", "lt": "<", "gt": ">", "le": "<=", "ge": ">=", "eq": "==", "ne": "~=",
    "bor": "|", "bxor": "~", "band": "&", "shl": "<<", "shr": ">>", "concat": "..", "add": "+",
    "sub": "-", "mul": "*", "div": "/", "idiv": "//", "mod": "%", "pow": "^",
    "not": "not", "unm": "-", "len": "#", "bnot": "~",
}
UNOPS = {"not": "UNot", "unm": "UNeg", "len": "ULen", "bnot": "UBnot"}
# lcode.h BinOpr name -> Nelua operator name
OPR2NAME = {
    "OPR_ADD": "add", "OPR_SUB": "sub", "OPR_MUL": "mul", "OPR_MOD": "mod", "OPR_POW": "pow",
    "OPR_DIV": "div", "OPR_IDIV": "idiv", "OPR_BAND": "band", "OPR_BOR": "bor", "OPR_BXOR": "bxor",
    "OPR_SHL": "shl", "OPR_SHR": "shr", "OPR_CONCAT": "concat", "OPR_EQ": "eq", "OPR_LT": "lt",
    "OPR_LE": "le", "OPR_NE": "ne", "OPR_GT": "gt", "OPR_GE": "ge", "OPR_AND": "and", "OPR_OR": "or",
}


def _tokens(body, rules):
    """`tok`->'name' pairs of a PEG alternative list; references to other rules (cmp, forcmp) expanded."""
    out = []
    pos = 0
    for m in re.finditer(r"`([^`]+)`\s*->\s*'(\w+)'|\b([a-z]\w*)\b", body):
        if m.group(1):
            out.append((m.group(2), m.group(1)))
        elif m.group(3) in rules and not m.group(3).startswith("expr"):
            out += _tokens(rules[m.group(3)], rules)
    return out


def scrape_ladder(txt):
    # join continuation lines: a rule body extends over following lines that are indented
    lines = txt.split("\n")
    rules = {}
    kinds = {}
    cur = None
    for ln in lines:
        m = re.match(r"^([A-Za-z]\w*)\s*(?::\s*(\w+)\s*)?(<--|<==|<-\|)\s*(.*)$", ln)
        if m:
            cur = m.group(1)
            rules[cur] = m.group(4)
            kinds[cur] = m.group(2)
        elif cur and re.match(r"^\s+\S", ln) and not ln.strip().startswith("--"):
            rules[cur] += " " + ln.strip()
        else:
            cur = None
    if rules.get("expr", "").strip() != "expror":
        raise RuntimeError("syntaxdefs.lua: rule `expr <-- expror` not found")
    levels = []          # [(rule, oprule or None)]
    r = "expror"
    unary_rule = None
    seen = set()
    while r != "exprsimple":
        if r in seen or r not in rules:
            raise RuntimeError("syntaxdefs.lua: expression ladder is not a chain at %r" % r)
        seen.add(r)
        body = rules[r].strip()
        m = re.match(r"^\((expr\w+)\s+(op\w+)\*\)\s*~>\s*foldleft$", body)
        m2 = re.match(r"^(op\w+)\s*/\s*(expr\w+)$", body)
        if m:
            levels.append((r, m.group(2)))
            r = m.group(1)
        elif m2:
            levels.append((r, None))
            unary_rule = (r, m2.group(1))
            r = m2.group(2)
        else:
            raise RuntimeError("syntaxdefs.lua: unexpected shape of rule %s: %s" % (r, body))
    if not unary_rule:
        raise RuntimeError("syntaxdefs.lua: no `exprunary <-- opunary / exprpow` rule")
    level_of = {rule: i + 1 for i, (rule, _) in enumerate(levels)}
    binlevel, operand, token = {}, {}, {}
    extra = []
    for rule, oprule in levels:
        if not oprule:
            continue
        body = rules.get(oprule)
        if body is None or kinds.get(oprule) != "BinaryOp":
            raise RuntimeError("syntaxdefs.lua: %s is not a BinaryOp rule" % oprule)
        m = re.search(r"@(expr\w+)\s*$", body)
        if not m or m.group(1) not in level_of:
            raise RuntimeError("syntaxdefs.lua: operand rule of %s not found" % oprule)
        for name, tok in _tokens(body[:m.start()], rules):
            if name in BINOPS:
                if name in binlevel:
                    raise RuntimeError("operator %s appears twice in the ladder" % name)
                binlevel[name] = level_of[rule]
                operand[name] = level_of[m.group(1)]
                token[name] = tok
            else:
                extra.append(name)
    missing = [n for n in BINOPS if n not in binlevel]
    if missing:
        raise RuntimeError("syntaxdefs.lua: shared operators missing from the ladder: %s" % missing)
    ubody = rules.get(unary_rule[1], "")
    m = re.search(r"@(expr\w+)\s*$", ubody)
    if not m or m.group(1) not in level_of or kinds.get(unary_rule[1]) != "UnaryOp":
        raise RuntimeError("syntaxdefs.lua: operand rule of %s not found" % unary_rule[1])
    utoks = dict(_tokens(ubody[:m.start()], rules))
    for n in UNOPS:
        if n not in utoks:
            raise RuntimeError("syntaxdefs.lua: unary operator %s missing" % n)
        token["u:" + n] = utoks[n]
    return {
        "levels": [rule for rule, _ in levels],
        "binop_level": binlevel, "binop_operand_level": operand,
        "unary_level": level_of[unary_rule[0]], "unary_operand_level": level_of[m.group(1)],
        "tokens": token, "nelua_only_operators": sorted(set(extra) | (set(utoks) - set(UNOPS))),
    }


def scrape_luaprio(lparser, lcode_h):
    m = re.search(r"typedef enum BinOpr \{(.*?)\}\s*BinOpr;", lcode_h, re.S)
    if not m:
        raise RuntimeError("lcode.h: enum BinOpr not found")
    body = re.sub(r"/\*.*?\*/", "", m.group(1), flags=re.S)
    order = [x.strip() for x in body.split(",") if x.strip()]
    order = [x for x in order if x != "OPR_NOBINOPR"]
    m = re.search(r"priority\[\]\s*=\s*\{(.*?)\};", lparser, re.S)
    if not m:
        raise RuntimeError("lparser.c: priority[] not found")
    body = re.sub(r"/\*.*?\*/", "", m.group(1), flags=re.S)
    pairs = [(int(a), int(b)) for a, b in re.findall(r"\{\s*(\d+)\s*,\s*(\d+)\s*\}", body)]
    if len(pairs) != len(order) or len(order) != len(OPR2NAME):
        raise RuntimeError("lparser.c: %d priority pairs for %d operators" % (len(pairs), len(order)))
    m = re.search(r"#define\s+UNARY_PRIORITY\s+(\d+)", lparser)
    if not m:
        raise RuntimeError("lparser.c: UNARY_PRIORITY not found")
    left, right = {}, {}
    for opr, (l, r) in zip(order, pairs):
        if opr not in OPR2NAME:
            raise RuntimeError("lcode.h: unknown operator %s" % opr)
        left[OPR2NAME[opr]] = l
        right[OPR2NAME[opr]] = r
    return {"left": left, "right": right, "unary": int(m.group(1)), "order": order}


def scrape_cflags(cdefs):
    """compilers_flags.<name> tables with tabler.updatecopy inheritance resolved (string fields only)."""
    tables = {}
    for m in re.finditer(r"compilers_flags(?:\.(\w+)|\['([^']+)'\])\s*=\s*(?:tabler\.updatecopy\(\s*compilers_flags(?:\.(\w+)|\['([^']+)'\])\s*,\s*)?\{(.*?)\n\}\)?",
                         cdefs, re.S):
        name = m.group(1) or m.group(2)
        parent = m.group(3) or m.group(4)
        body = m.group(5)
        fields = {}
        for f in re.finditer(r"^\s*(\w+)\s*=\s*(\"([^\"]*)\"|'([^']*)')\s*,", body, re.M):
            fields[f.group(1)] = f.group(3) if f.group(3) is not None else f.group(4)
        base = dict(tables[parent]) if parent else {}
        if parent and parent not in tables:
            raise RuntimeError("cdefs.lua: parent table %s not seen before %s" % (parent, name))
        base.update(fields)
        tables[name] = base
    # aliases: compilers_flags['zig cc'] = compilers_flags.clang
    for m in re.finditer(r"compilers_flags(?:\.(\w+)|\['([^']+)'\])\s*=\s*compilers_flags(?:\.(\w+)|\['([^']+)'\])\s*\n", cdefs):
        name, src = m.group(1) or m.group(2), m.group(3) or m.group(4)
        if src in tables:
            tables[name] = dict(tables[src])
    for cc in ("gcc", "clang"):
        if cc not in tables or "cflags_base" not in tables[cc]:
            raise RuntimeError("cdefs.lua: compilers_flags.%s.cflags_base not found" % cc)
    return tables


def scrape_div_guard(cbuiltins):
    """Where the `b == -1` line of nelua_idiv_/nelua_imod_ is emitted: True = before `if checked then`
    (every variant has the guard), False = only inside the checked branch."""
    out = {}
    for name in ("idiv", "imod"):
        m = re.search(r"function cbuiltins\.nelua_%s_\(context, type, checked\)(.*?)\nend\n" % name, cbuiltins, re.S)
        if not m:
            raise RuntimeError("cbuiltins.lua: nelua_%s_ not found" % name)
        body = m.group(1)
        g = body.find("b == -1")
        c = re.search(r"\n\s*if checked then", body)
        e = re.search(r"\n  end\n", body[c.start():]) if c else None
        if g < 0 or not c or not e:
            raise RuntimeError("cbuiltins.lua: cannot locate the b == -1 guard / `if checked then` of nelua_%s_" % name)
        if g < c.start():
            out[name] = True
        elif g < c.start() + e.start():
            out[name] = False
        else:
            out[name] = True      # after the checked block: still unconditional
    return out


def scrape_shift_fast_path(cbuiltins):
    """For operators.shl/shr/asr: which width the compile-time-constant count is compared against before the
    plain C shift is used: True = the shifted operand's type, False = something else (the count's own type).
    One level of local helper functions called from the condition is followed."""
    helpers = dict(re.findall(r"\nlocal function (\w+)\((?:[^)]*)\)(.*?)\nend\n", cbuiltins, re.S))
    out = {}
    for name in ("shl", "shr", "asr"):
        m = re.search(r"function cbuiltins\.operators\.%s\(_, node, emitter, lattr, rattr, lname, rname\)(.*?)\nend\n" % name, cbuiltins, re.S)
        if not m:
            raise RuntimeError("cbuiltins.lua: operators.%s not found" % name)
        c = re.search(r"\n  if (.*?) then\n", m.group(1), re.S)
        if not c:
            raise RuntimeError("cbuiltins.lua: fast-path condition of operators.%s not found" % name)
        text = c.group(1)
        for h, body in helpers.items():
            if re.search(r"\b%s\(" % re.escape(h), text):
                text += "\n" + body
        widths = re.findall(r"(lattr\.type|ltype|rattr\.type|rtype|type)\.bitsize", text)
        if not widths:
            raise RuntimeError("cbuiltins.lua: operators.%s: no width in the fast-path condition: %s" % (name, text[:200]))
        out[name] = all(w in ("lattr.type", "ltype") for w in widths)
    return out


def scrape_vardecl_policy(cgenerator):
    """cgenerator.visitors.VarDecl writes into `emitter` (comes out first) and its fork `defemitter` (appended at
    the end).  Returns which of the two receives (a) the bare `valnode;` statement of a variable dropped by dead
    code elimination and (b) the `_asgnret = call;` statement of a trailing multiple-return call:
    {"dead_in_def": bool, "asgnret_in_def": bool}.  True only if EVERY such statement goes to defemitter.
    Also checks the facts the model relies on: definitions of kept variables go to defemitter, which is appended
    last."""
    m = re.search(r"function visitors\.VarDecl\(context, node, emitter\)(.*?)\nend\n", cgenerator, re.S)
    if not m:
        raise RuntimeError("cgenerator.lua: visitors.VarDecl not found")
    body = m.group(1)
    if not re.search(r"local defemitter = emitter:fork\(\)", body) or not re.search(r"\n  emitter:add\(defemitter\)\s*$", body):
        raise RuntimeError("cgenerator.lua: VarDecl no longer forks `defemitter` and appends it last; coq/C09/VarDecl.v must be revisited")
    if not re.search(r"defemitter:add_converted_val\(vartype, asgnvalname, asgnvaltype\)", body):
        raise RuntimeError("cgenerator.lua: VarDecl: definitions of kept variables are no longer added to defemitter")
    dead = re.findall(r"(\w+):add_indent_ln\(valnode, ';'\)", body)
    asg = re.findall(r"(\w+):add_indent_ln\(rettypename, ' ', multiretvalname, ' = ', valnode, ';'\)", body)
    if not dead or len(asg) != 1:
        raise RuntimeError("cgenerator.lua: VarDecl: statements for dropped initializers / _asgnret not found (%r, %r)" % (dead, asg))
    for w in dead + asg:
        if w not in ("emitter", "defemitter"):
            raise RuntimeError("cgenerator.lua: VarDecl: unknown emitter %r" % w)
    return {"dead_in_def": all(w == "defemitter" for w in dead), "asgnret_in_def": asg[0] == "defemitter"}


def scrape_aligned_domain(analyzer):
    """analyzer visitors.Annotation: the values `<aligned(N)>` accepts.  Returns {"pow2": bool, "max": int}:
    pow2 = a value that is not a positive power of two raises an error, max = largest accepted value (0 = the
    annotation is not validated at all)."""
    m = re.search(r"if name == 'aligned' and \((.*?)\) then\s*\n\s*node:raisef", analyzer)
    if not m:
        return {"pow2": False, "max": 0}
    cond = " ".join(m.group(1).split())
    pow2 = "params < 1" in cond and "params & (params - 1) ~= 0" in cond
    mx = re.search(r"params > (0x[0-9a-fA-F]+|\d+)", cond)
    return {"pow2": pow2, "max": int(mx.group(1), 0) if (mx and pow2) else 0}


def scrape_sideeffect_policy(analyzer):
    """The two facts coq/C01/Order.v takes about the analyzer's `sideeffect` attribute:
      args_propagate  visitor_Call: when the callee carries no side effect, the call takes the attribute from its
                      arguments (`for i=1,#argnodes do if argnodes[i].attr.sideeffect then attr.sideeffect = true end end`
                      in the else branch of `if sideeffect then attr.sideeffect = true ...`)
      indirect_marks  visitors.Assign: a target without a symbol (field, index, pointer) marks the enclosing function
                      (`else ... context:mark_funcscope_sideeffect()` after `if symbol then ... end`)
    The anchoring statements must be found (hard error otherwise); the two branches may be absent (False)."""
    m = re.search(r"\n    if sideeffect then\s*\n\s*attr\.sideeffect = true\s*\n\s*context:mark_funcscope_sideeffect\(\)[ \t]*\n((?:    else.*?\n)?)    end\n", analyzer, re.S)
    if not m:
        raise RuntimeError("analyzer.lua: visitor_Call: `if sideeffect then attr.sideeffect = true; mark_funcscope_sideeffect()` not found")
    rest = m.group(1)
    args = bool(re.search(r"^\s*else[^\n]*\n\s*for i=1,#argnodes do\s*\n\s*if argnodes\[i\]\.attr\.sideeffect then attr\.sideeffect = true end\s*\n\s*end\s*$", rest.rstrip("\n")))
    if rest.strip() and not args:
        raise RuntimeError("analyzer.lua: visitor_Call: unknown else branch of the sideeffect test: %r" % rest[:200])
    m = re.search(r"\n    if symbol then[^\n]*\n(.*?)\n      if symbol\.staticstorage then[^\n]*\n\s*context:mark_funcscope_sideeffect\(\)[ \t]*\n      end\n((?:    else.*?\n)?)    end\n", analyzer, re.S)
    if not m:
        raise RuntimeError("analyzer.lua: visitors.Assign: `if symbol then ... if symbol.staticstorage then mark_funcscope_sideeffect()` not found")
    rest = m.group(2)
    ind = bool(re.search(r"^\s*else[^\n]*\n\s*context:mark_funcscope_sideeffect\(\)\s*$", rest.rstrip("\n")))
    if rest.strip() and not ind:
        raise RuntimeError("analyzer.lua: visitors.Assign: unknown else branch for targets without a symbol: %r" % rest[:200])
    return {"args_propagate": args, "indirect_marks": ind}


MAYBE_NEG_EXITS = {"type.is_unsigned": 1, "self.comptime and self.value >= 0": 2}


def scrape_maybe_negative(attr_lua, cbuiltins):
    """Attr:is_maybe_negative (attr.lua) decides whether operators.idiv / operators.mod call the floor helpers or emit
    the bare C operator.  Returns {"exits": [codes], "unknown": [texts], "either": bool}:
    exits = the conditions under which the function answers `false`, in order (1 = the type is unsigned,
    2 = compile-time value >= 0, >= 100 = a condition the model does not know); either = both operators take the
    helper when `lattr:is_maybe_negative() or rattr:is_maybe_negative()`."""
    m = re.search(r"function Attr:is_maybe_negative\(\)(.*?)\nend\n", attr_lua, re.S)
    if not m:
        raise RuntimeError("attr.lua: Attr:is_maybe_negative not found")
    body = m.group(1)
    if not re.search(r"\n  return true\s*$", body):
        raise RuntimeError("attr.lua: Attr:is_maybe_negative no longer ends with `return true`")
    n_false = len(re.findall(r"\breturn false\b", body))
    conds = re.findall(r"if ([^\n]*?) then[^\n]*\n\s*return false", body)
    if n_false != len(conds):
        raise RuntimeError("attr.lua: Attr:is_maybe_negative: a `return false` without a recognisable condition")
    exits, unknown = [], []
    for c in conds:
        c = " ".join(c.split())
        if c in MAYBE_NEG_EXITS:
            exits.append(MAYBE_NEG_EXITS[c])
        else:
            unknown.append(c)
            exits.append(100 + len(unknown))
    either = True
    for name in ("idiv", "mod"):
        f = re.search(r"function cbuiltins\.operators\.%s\(context, node, emitter, lattr, rattr, lname, rname\)(.*?)\nend\n" % name, cbuiltins, re.S)
        if not f:
            raise RuntimeError("cbuiltins.lua: operators.%s not found" % name)
        uses = re.findall(r"is_maybe_negative", f.group(1))
        if not uses:
            raise RuntimeError("cbuiltins.lua: operators.%s no longer consults is_maybe_negative" % name)
        if not re.search(r"type\.is_integral and \(lattr:is_maybe_negative\(\) or rattr:is_maybe_negative\(\)\) then\s*\n\s*emitter:add_builtin\('nelua_i(div|mod)_'", f.group(1)):
            either = False
    return {"exits": exits, "unknown": unknown, "either": either}


def scrape_compiler_entries(cdefs):
    """every entry of cdefs.compilers_flags in file order: [{"name", "derives_from_gcc", "cflags_base"}], the inheritance
    (tabler.updatecopy) and aliases (compilers_flags[x] = compilers_flags.y) resolved; derives_from_gcc is computed from the
    parent chain (gcc itself included)"""
    tables = scrape_cflags(cdefs)
    parent = {}
    order = []
    for m in re.finditer(r"compilers_flags(?:\.(\w+)|\['([^']+)'\])\s*=\s*(tabler\.updatecopy\(\s*)?(?:compilers_flags(?:\.(\w+)|\['([^']+)'\]))?", cdefs):
        name = m.group(1) or m.group(2)
        par = m.group(4) or m.group(5)
        if name in tables and name not in parent:
            parent[name] = (par, bool(m.group(3)))      # (parent or alias target, is a copy)
            order.append(name)

    def derives(n, seen=()):
        if n == "gcc":
            return True
        p = parent.get(n, (None, False))[0]
        return bool(p) and p not in seen and derives(p, seen + (n,))
    return [{"name": n, "derives_from_gcc": derives(n), "cflags_base": tables[n].get("cflags_base", "")} for n in order]


def scrape_generic_cc_fallback(ccompiler):
    """ccompiler.get_compiler_cflags: does the generic `cc` entry get gcc's base flags when the compiler identifies itself
    as GNU C / clang?  Also checks the fact the model relies on: the entry's cflags_base is what is added."""
    if not re.search(r"cflags:add\(' '\.\.(ccflags\.)?cflags_base\)", ccompiler):
        raise RuntimeError("ccompiler.lua: get_compiler_cflags no longer adds cflags_base")
    return bool(re.search(r"if ccflags == cdefs\.compilers_flags\.cc and \(ccinfo\.is_gcc or ccinfo\.is_clang\) then[^\n]*\n(?:\s*--[^\n]*\n)*\s*cflags_base = cdefs\.compilers_flags\.gcc\.cflags_base", ccompiler))
