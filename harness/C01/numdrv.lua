-- Reference side of harness/C01/numdrv.nelua: the same operations under Lua 5.4.
local function tofloat(bits) return (string.unpack('<d', string.pack('<i8', bits))) end
local function tobits(f) return (string.unpack('<i8', string.pack('<d', f))) end

local function forgen(a, b, s, cap, lit)
  local n, ended = 0, true
  local function body(i)
    if n >= cap then ended = false return true end
    print('v', i)
    n = n + 1
  end
  if lit == nil then for i = a, b, s do if body(i) then break end end
  elseif lit == 1 then for i = a, b do if body(i) then break end end
  elseif lit == -1 then for i = a, b, -1 do if body(i) then break end end
  elseif lit == 3 then for i = a, b, 3 do if body(i) then break end end
  elseif lit == -5 then for i = a, b, -5 do if body(i) then break end end
  end
  print('e', ended)
end

local function run(op, a, b, c, d)
  if op == 1 then print(a + b)
  elseif op == 2 then print(a - b)
  elseif op == 3 then print(a * b)
  elseif op == 4 then print(a & b)
  elseif op == 5 then print(a | b)
  elseif op == 6 then print(a ~ b)
  elseif op == 7 then print(a // b)
  elseif op == 8 then print(a % b)
  elseif op == 9 then print(a << b)
  elseif op == 10 then print(a >> b)
  elseif op == 11 then print(a < b)
  elseif op == 12 then print(a <= b)
  elseif op == 13 then print(a == b)
  elseif op == 14 then print(a ~= b)
  elseif op == 15 then print(-a)
  elseif op == 16 then print(~a)
  elseif op == 17 then print(a > b)
  elseif op == 18 then print(a >= b)
  elseif op == 20 then print(a < tofloat(b))
  elseif op == 21 then print(a <= tofloat(b))
  elseif op == 22 then print(tofloat(b) < a)
  elseif op == 23 then print(tofloat(b) <= a)
  elseif op == 24 then print(a == tofloat(b))
  elseif op == 25 then print(tobits(a + 0.0))
  elseif op == 26 then print(a > tofloat(b))
  elseif op == 27 then print(a >= tofloat(b))
  elseif op == 28 then print(a ~= tofloat(b))
  elseif op == 30 then forgen(a, b, c, d, nil)
  elseif op == 31 then forgen(a, b, c, d, 1)
  elseif op == 32 then forgen(a, b, c, d, -1)
  elseif op == 33 then forgen(a, b, c, d, 3)
  elseif op == 34 then forgen(a, b, c, d, -5)
  elseif op >= 100 and op < 164 then print(a << (op - 100))
  elseif op >= 200 and op < 264 then print(a >> (op - 200))
  else print('?')
  end
end

for line in io.lines() do
  local t = {}
  for w in line:gmatch('%S+') do t[#t + 1] = math.tointeger(w) end
  if #t == 5 then
    local ok, err = pcall(run, t[1], t[2], t[3], t[4], t[5])
    if not ok then print('error', (tostring(err):gsub('^.-:%d+: ', ''))) end
  end
end
