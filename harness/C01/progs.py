"""Generators and canonicalisers for C01 (pure Python, no repo code evaluated).

 * operator chains for the precedence tie: token list for the Coq climb parser, source text for the
   real front ends, parser of `nelua --print-ast` output -> s-expression
 * typed random programs of the shared Lua/Nelua subset: emits the .nelua text and the .lua text
   (annotations erased) from one AST, built so that the Lua execution raises no error and avoids
   the three recorded defects (they have their own exact witnesses)
"""
import re

import scrape

BIN_TOKEN = {k: scrape.LUA_TOKEN[k] for k in scrape.BINOPS}
UN_TOKEN = {"not": "not", "unm": "-", "len": "#", "bnot": "~"}


# ---------------------------------------------------------------------------
# operator chains
# ---------------------------------------------------------------------------

def gen_chain(rng, maxops=12, ops=None, unops=None, parens=True):
    """Returns a list of tokens in driver syntax: n<k>, binop names, u:<unop>, ( and )."""
    ops = ops or list(scrape.BINOPS)
    unops = unops if unops is not None else list(UN_TOKEN)
    counter = [0]

    def operand(depth):
        toks = []
        while unops and rng.random() < 0.18:
            toks.append("u:" + rng.choice(unops))
        if parens and depth < 3 and rng.random() < 0.12:
            toks.append("(")
            toks += chain(rng.randint(1, 3), depth + 1)
            toks.append(")")
        else:
            counter[0] += 1
            toks.append("n%d" % counter[0])
        return toks

    def chain(n, depth):
        toks = operand(depth)
        # runs of the same operator / same level exercise associativity
        last = None
        for _ in range(n):
            if last and rng.random() < 0.35:
                op = last
            else:
                op = rng.choice(ops)
            last = op
            toks.append(op)
            toks += operand(depth)
        return toks

    return chain(rng.randint(1, maxops), 0)


def chain_source(toks, names=None):
    """Source text of a chain (same spelling in Lua and Nelua). names: operand spelling per n<k>."""
    out = []
    for t in toks:
        if t in ("(", ")"):
            out.append(t)
        elif t.startswith("u:"):
            out.append(UN_TOKEN[t[2:]])
        elif t[0] == "n" and t[1:].isdigit():
            out.append(names(int(t[1:])) if names else t[1:])
        else:
            out.append(BIN_TOKEN[t])
    return " ".join(out)


def sexpr_source(s, names):
    """Fully parenthesised source text of an s-expression produced by the driver."""
    toks = re.findall(r"\(|\)|[^\s()]+", s)
    pos = [0]

    def parse():
        t = toks[pos[0]]
        pos[0] += 1
        if t != "(":
            return names(int(t))
        head = toks[pos[0]]
        pos[0] += 1
        args = []
        while toks[pos[0]] != ")":
            args.append(parse())
        pos[0] += 1
        if head == "paren":
            return "(" + args[0] + ")"
        if len(args) == 1:
            return "(" + UN_TOKEN[head] + " " + args[0] + ")"
        return "(" + args[0] + " " + BIN_TOKEN[head] + " " + args[1] + ")"

    return parse()


def parse_print_ast(text):
    """`nelua --print-ast` output -> nested python structure: ('Name', [children]) / [list] / str / None."""
    toks = re.findall(r'"(?:[^"\\]|\\.)*"|[A-Za-z_]\w*|[{},]|-?\d+', text)
    pos = [0]

    def value():
        t = toks[pos[0]]
        if t == "{":
            pos[0] += 1
            items = []
            while toks[pos[0]] != "}":
                items.append(value())
                if toks[pos[0]] == ",":
                    pos[0] += 1
            pos[0] += 1
            return items
        pos[0] += 1
        if t.startswith('"'):
            return t[1:-1]
        if pos[0] < len(toks) and toks[pos[0]] == "{" and t[0].isupper():
            return (t, value())
        return t

    return value()


def ast_sexpr(node):
    name, ch = node
    if name == "Number":
        return ch[0]
    if name == "BinaryOp":
        return "(%s %s %s)" % (ch[1], ast_sexpr(ch[0]), ast_sexpr(ch[2]))
    if name == "UnaryOp":
        return "(%s %s)" % (ch[0], ast_sexpr(ch[1]))
    if name == "Paren":
        return "(paren %s)" % ast_sexpr(ch[0])
    raise ValueError("unexpected node %s" % name)


def ast_chains(text):
    """All `local _ = <expr>` initialisers of a --print-ast dump, as s-expressions, in order."""
    root = parse_print_ast(text)
    out = []
    for st in root[1]:
        if isinstance(st, tuple) and st[0] == "VarDecl":
            out.append(ast_sexpr(st[1][2][0]))
    return out


# ---------------------------------------------------------------------------
# typed random programs of the shared subset
# ---------------------------------------------------------------------------
# Every syntactic piece is produced twice, (nelua text, lua text); they differ only in the type
# annotations and in `require 'string'`.  Values are kept in run-time variables (the compile-time
# folder is C02's subject); the three recorded C01 defects are avoided by construction:
#   * int/float comparisons only with an integer operand of the form (e % 1000)
#   * for-loop bounds are small
#   * an expression contains at most one call of an effectful function and then reads no variable that
#     a function may write
INT_LITS = [0, 1, 2, 3, 5, 7, 10, 63, 64, 100, 255, 1000, 65536, 2147483647, 2147483648, 4294967296,
            9007199254740993, 4611686018427387904, 9223372036854775807, -1, -2, -7, -64, -65, -1000,
            -2147483648, -9223372036854775807]
FLT_LITS = ["0.0", "1.0", "0.5", "2.5", "-1.5", "3.25", "100.0", "1e15", "1e16", "123456.789", "-0.0", "1e100", "7.0",
            "0.1", "9007199254740992.0", "1e-7", "-2.0"]
STR_LITS = ['""', '"a"', '"abc"', '"Hello"', '"b"', '"abd"', '"x y"', '"10"', '"9"']
MININT_TXT = "(-9223372036854775807 - 1)"      # mininteger (there is no literal for it in either language)
TNAME = {"int": "integer", "flt": "number", "bool": "boolean", "str": "string"}


class Gen:
    def __init__(self, rng, size=28, modname=None):
        self.rng = rng
        self.size = size
        self.n = []          # nelua lines
        self.l = []          # lua lines
        self.ind = 0
        self.counter = 0
        self.scopes = [[]]   # list of lists of (name, type, writable_by_functions)
        self.funcs = []      # (name, argtypes, rettypes, effectful)
        self.shared = []     # chunk-level variables that functions write
        self.in_func = False
        self.loop_depth = 0
        self.modname = modname
        self.stats = {}

    # ---- emission ----
    def emit(self, n, l=None):
        self.n.append("  " * self.ind + n)
        self.l.append("  " * self.ind + (n if l is None else l))

    def fresh(self, p="v"):
        self.counter += 1
        return "%s%d" % (p, self.counter)

    def count(self, k):
        self.stats[k] = self.stats.get(k, 0) + 1

    # ---- variables ----
    def vars_of(self, t, pure_only=False):
        out = []
        for sc in self.scopes:
            for (name, ty, shared) in sc:
                if ty == t and not (pure_only and shared):
                    out.append(name)
        # innermost declaration wins (shadowing): keep last occurrence only
        seen, res = set(), []
        for nme in reversed(out):
            if nme not in seen:
                seen.add(nme)
                res.append(nme)
        return res

    def visible_type(self, name):
        for sc in reversed(self.scopes):
            for (nme, ty, shared) in reversed(sc):
                if nme == name:
                    return ty, shared
        return None, None

    def pick_var(self, t, pure_only=False):
        vs = [v for v in self.vars_of(t, pure_only) if self.visible_type(v)[0] == t]
        return self.rng.choice(vs) if vs else None

    # ---- expressions: return (text, has_effectful_call); the text is the same in both languages.
    # Internally every generator returns (text, eff, rt): rt = the expression contains a run-time
    # variable or call, so the compiler cannot fold it (the constant folder is C02's subject).
    def expr(self, t, depth=0, pure=False, nocall=False):
        e, eff, rt = self.expr3(t, depth, pure, nocall)
        if not rt:
            v = self.pick_var(t, pure_only=True) or self.pick_var(t, pure_only=pure)
            if v:
                return v, False
        return e, eff

    def expr3(self, t, depth, pure, nocall):
        if t == "int":
            return self.int_expr(depth, pure, nocall)
        if t == "flt":
            return self.flt_expr(depth, pure, nocall)
        if t == "bool":
            return self.bool_expr(depth, pure, nocall)
        return self.str_expr(depth, pure, nocall)

    def leaf(self, t, pure):
        v = self.pick_var(t, pure_only=pure)
        if v and self.rng.random() < 0.85:
            return v, False, True
        if t == "int":
            x = self.rng.choice(INT_LITS)
            return (str(x) if x >= 0 else "(%d)" % x), False, False
        if t == "flt":
            x = self.rng.choice(FLT_LITS)
            return (x if not x.startswith("-") else "(%s)" % x), False, False
        if t == "bool":
            return self.rng.choice(["true", "false"]), False, False
        return self.rng.choice(STR_LITS), False, False

    def anchor(self, t, a, ra, rb, pure):
        """make sure a binary operation has a run-time operand"""
        if ra or rb:
            return a, True
        v = self.pick_var(t, pure_only=True) or self.pick_var(t, pure_only=pure)
        if v:
            return v, True
        return a, False

    def call_expr(self, t):
        fs = [f for f in self.funcs if f[2] == [t]]
        if not fs:
            return None
        name, argts, rets, eff = self.rng.choice(fs)
        args = [self.expr(a, 2, pure=True, nocall=True)[0] for a in argts]
        self.count("call")
        return "%s(%s)" % (name, ", ".join(args)), eff, True

    def int_expr(self, depth, pure, nocall):
        r = self.rng
        if depth >= 3 or r.random() < 0.25:
            return self.leaf("int", pure)
        k = r.random()
        if k < 0.12 and not nocall:
            c = self.call_expr("int")
            if c:
                return c
        a, ea, ra = self.int_expr(depth + 1, pure, nocall)
        if k < 0.2:
            op = r.choice(["-", "~"])
            self.count("un" + op)
            return "(%s %s)" % (op, a), ea, ra
        # after an effectful call: no second call, no read of a variable a function may write
        b, eb, rb = self.int_expr(depth + 1, pure or ea, nocall or ea)
        if eb and not ea:          # the call is on the right: the left operand must not read shared state
            a, ea, ra = self.int_expr(depth + 1, True, True)
        op = r.choice(["+", "-", "*", "//", "%", "&", "|", "~", "<<", ">>", "+", "-", "*"])
        self.count("int" + op)
        if op in ("//", "%"):
            b = "(%s | 1)" % b
        if op in ("<<", ">>") and r.random() < 0.5:
            b, rb = str(r.choice([0, 1, 5, 31, 32, 63])), False     # literal count: compile-time shortcut
        a, rt = self.anchor("int", a, ra, rb, pure or eb)
        return "(%s %s %s)" % (a, op, b), ea or eb, rt

    def flt_expr(self, depth, pure, nocall):
        r = self.rng
        if depth >= 3 or r.random() < 0.25:
            return self.leaf("flt", pure)
        k = r.random()
        if k < 0.1 and not nocall:
            c = self.call_expr("flt")
            if c:
                return c
        if k < 0.3:
            # integer operands promoted by the operator: / and ^ always give a float
            a, ea, ra = self.int_expr(depth + 1, pure, nocall)
            b, eb, rb = self.int_expr(depth + 1, pure or ea, nocall or ea)
            if eb and not ea:          # the call is on the right: the left operand must not read shared state
                a, ea, ra = self.int_expr(depth + 1, True, True)
            op = r.choice(["/", "/", "^"])
            self.count("flt" + op)
            if op == "^":
                b = "(%s %% 5)" % b
            a, rt = self.anchor("int", a, ra, rb, pure or eb)
            return "(%s %s %s)" % (a, op, b), ea or eb, rt
        a, ea, ra = self.flt_expr(depth + 1, pure, nocall)
        if k < 0.38:
            self.count("flt-neg")
            return "(- %s)" % a, ea, ra
        if k < 0.5:
            b, eb, rb = self.int_expr(depth + 1, pure or ea, nocall or ea)
            if eb and not ea:          # the call is on the right: the left operand must not read shared state
                a, ea, ra = self.flt_expr(depth + 1, True, True)
            op = r.choice(["+", "-", "*"])
            self.count("mixed" + op)
            if not ra:
                # the float operand of a mixed operation is a variable, never a constant: gcc 12 compiles
                # `0.0 - (double)k` as `-(double)k` (prints -0.0 for k = 0; clang and Lua print 0.0) - a C
                # compiler matter outside this property
                v = self.pick_var("flt", pure_only=True) or self.pick_var("flt", pure_only=pure or eb)
                if v:
                    a, ra = v, True
            a, rt = self.anchor("flt", a, ra, rb, pure or eb)
            if op == "-" and re.sub(r"[()\s-]", "", b) == "0":
                # reference Lua compiles `x - K` for a small integer constant K as OP_ADDI x, -K: `x - 0` is `x + 0`,
                # +0.0 for x = -0.0 where IEEE (and Nelua) give -0.0.  Recorded as a known finding with its own
                # witness program (`local v = -0.0 print(v - 0)`); not generated again
                op = "+"
            # (operands keep their left-to-right order: the call, if any, stays first)
            return "(%s %s %s)" % (a, op, b), ea or eb, rt
        b, eb, rb = self.flt_expr(depth + 1, pure or ea, nocall or ea)
        if eb and not ea:          # the call is on the right: the left operand must not read shared state
            a, ea, ra = self.flt_expr(depth + 1, True, True)
        op = r.choice(["+", "-", "*", "/", "//", "%", "+", "*"])
        self.count("flt" + op)
        if op in ("//", "%"):
            b = "(%s * %s + 1.0)" % (b, b)
        a, rt = self.anchor("flt", a, ra, rb, pure or eb)
        return "(%s %s %s)" % (a, op, b), ea or eb, rt

    def bool_expr(self, depth, pure, nocall):
        r = self.rng
        k = r.random()
        if depth >= 2 and k < 0.3:
            return self.leaf("bool", pure)
        if k < 0.45:
            a, ea, ra = self.int_expr(depth + 1, pure, nocall)
            b, eb, rb = self.int_expr(depth + 1, pure or ea, nocall or ea)
            if eb and not ea:          # the call is on the right: the left operand must not read shared state
                a, ea, ra = self.int_expr(depth + 1, True, True)
            op = r.choice(["<", "<=", "==", "~=", ">", ">="])
            self.count("icmp" + op)
            a, rt = self.anchor("int", a, ra, rb, pure or eb)
            return "(%s %s %s)" % (a, op, b), ea or eb, rt
        if k < 0.6:
            a, ea, ra = self.flt_expr(depth + 1, pure, nocall)
            b, eb, rb = self.flt_expr(depth + 1, pure or ea, nocall or ea)
            if eb and not ea:          # the call is on the right: the left operand must not read shared state
                a, ea, ra = self.flt_expr(depth + 1, True, True)
            op = r.choice(["<", "<=", "==", "~=", ">", ">="])
            self.count("fcmp" + op)
            a, rt = self.anchor("flt", a, ra, rb, pure or eb)
            return "(%s %s %s)" % (a, op, b), ea or eb, rt
        if k < 0.68:
            a, ea, ra = self.int_expr(depth + 1, pure, nocall)
            b, eb, rb = self.flt_expr(depth + 1, pure or ea, nocall or ea)
            if eb and not ea:          # the call is on the right: the left operand must not read shared state
                a, ea, ra = self.int_expr(depth + 1, True, True)
            op = r.choice(["<", "<=", "==", "~=", ">", ">="])
            self.count("mixcmp" + op)
            a, rt = self.anchor("int", a, ra, rb, pure or eb)
            a = "(%s %% 1000)" % a
            return "(%s %s %s)" % (a, op, b), ea or eb, rt
        if k < 0.76:
            a, _, ra = self.str_expr(depth + 1, True, True)
            b, _, rb = self.str_expr(depth + 1, True, True)
            op = r.choice(["<", "<=", "==", "~=", ">", ">="])
            self.count("scmp" + op)
            a, rt = self.anchor("str", a, ra, rb, True)
            return "(%s %s %s)" % (a, op, b), False, rt
        if k < 0.84:
            a, ea, ra = self.bool_expr(depth + 1, pure, nocall)
            self.count("not")
            return "(not %s)" % a, ea, ra
        a, ea, ra = self.bool_expr(depth + 1, pure, nocall)
        b, eb, rb = self.bool_expr(depth + 1, pure or ea, nocall or ea)
        if eb and not ea:          # the call is on the right: the left operand must not read shared state
            a, ea, ra = self.bool_expr(depth + 1, True, True)
        op = r.choice(["and", "or"])
        self.count(op)
        a, rt = self.anchor("bool", a, ra, rb, pure or eb)
        return "(%s %s %s)" % (a, op, b), ea or eb, rt

    def str_expr(self, depth, pure, nocall, novar=False):
        """Resource bound: a string expression mentions at most ONE string variable (the other operands are
        literals or tostring of an integer), so every string value is `some variable + a constant`: lengths
        grow linearly in the number of executed statements, never by doubling (`s = s .. s` in a loop or in
        a chain of declarations would need 2^n bytes)."""
        r = self.rng
        k = r.random()
        if depth >= 2 or k < 0.35:
            if novar:
                return r.choice(STR_LITS), False, False
            return self.leaf("str", pure)
        if k < 0.6:
            a, ea, ra = self.int_expr(depth + 1, True, True)
            if not ra:
                a = self.pick_var("int", pure_only=True) or a
            self.count("tostring")
            return "tostring(%s)" % a, False, True
        a, _, ra = self.str_expr(depth + 1, True, True, novar)
        b, _, rb = self.str_expr(depth + 1, True, True, True)         # no second variable
        if r.random() < 0.5:
            a, b, ra, rb = b, a, rb, ra
        self.count("concat")
        if not (ra or rb) and not novar:
            v = self.pick_var("str", pure_only=True)
            if v:
                a, ra = v, True
        return "(%s .. %s)" % (a, b), False, ra or rb

    # ---- statements ----
    def declare(self, t, shared=False, init=None):
        name = self.fresh("g" if shared else "v")
        if init is None:
            init = self.initializer(t)
        self.emit("local %s: %s = %s" % (name, TNAME[t], init), "local %s = %s" % (name, init))
        self.scopes[-1].append((name, t, shared))
        return name

    def initializer(self, t):
        r = self.rng
        if r.random() < 0.5 or not self.vars_of(t):
            if t == "int":
                if r.random() < 0.08:
                    return MININT_TXT
                x = r.choice(INT_LITS)
                return str(x)
            if t == "flt":
                return r.choice(FLT_LITS)
            if t == "bool":
                return r.choice(["true", "false"])
            return r.choice(STR_LITS)
        return self.expr(t, 1, pure=self.in_func and False)[0]

    def stmt_print(self):
        ts = [self.rng.choice(["int", "int", "flt", "bool", "str"]) for _ in range(self.rng.randint(1, 3))]
        parts, used = [], False
        for t in ts:
            e, eff = self.expr(t, 0, pure=used, nocall=used)
            used = used or eff
            parts.append(e)
        if used and len(parts) > 1:
            # an effectful call among print arguments: keep it alone (argument order is a recorded defect)
            parts = [p for p in parts if "(" in p][:1] or parts[:1]
            e, eff = self.expr(ts[0], 0)
            parts = [e]
        self.emit("print(%s)" % ", ".join(parts))
        self.count("print")

    def stmt_assign(self):
        t = self.rng.choice(["int", "int", "flt", "bool", "str"])
        v = self.pick_var(t)
        if not v:
            return self.stmt_decl()
        if self.rng.random() < 0.2:
            w = self.pick_var(t)
            if w and w != v:
                e1, f1 = self.expr(t, 1, pure=True, nocall=True)
                e2, f2 = self.expr(t, 1, pure=True, nocall=True)
                self.emit("%s, %s = %s, %s" % (v, w, e1, e2))
                self.count("multi-assign")
                return
        e, _ = self.expr(t, 0)
        self.emit("%s = %s" % (v, e))
        self.count("assign")

    def stmt_decl(self):
        t = self.rng.choice(["int", "int", "flt", "bool", "str"])
        if self.rng.random() < 0.25 and self.vars_of(t):
            # shadowing: redeclare a visible name from its old value
            old = self.pick_var(t)
            ty, shared = self.visible_type(old)
            if not shared and len(self.scopes) > 1:
                e, _ = self.expr(t, 1)
                self.emit("local %s: %s = %s" % (old, TNAME[t], e), "local %s = %s" % (old, e))
                self.scopes[-1].append((old, t, False))
                self.count("shadow")
                return
        e, _ = self.expr(t, 0)
        self.declare(t, init=e)
        self.count("decl")

    def block(self, n):
        self.scopes.append([])
        self.ind += 1
        for _ in range(n):
            self.stmt()
        self.ind -= 1
        self.scopes.pop()

    def stmt_if(self):
        c, _ = self.expr("bool", 0)
        self.emit("if %s then" % c)
        self.block(self.rng.randint(1, 3))
        if self.rng.random() < 0.4:
            c2, _ = self.expr("bool", 0)
            self.emit("elseif %s then" % c2)
            self.block(self.rng.randint(1, 2))
        if self.rng.random() < 0.5:
            self.emit("else")
            self.block(self.rng.randint(1, 2))
        self.emit("end")
        self.count("if")

    # ---- variables the analyzer may have inferred a range for (numeric-for control variables, locals initialised
    #      from a non-negative constant): they are ordinary variables, assigned a negative value here and then
    #      used with CONSTANT right operands in the operators whose emitted form depends on operand ranges ----
    def range_probe(self, v):
        r = self.rng
        k = r.random()
        if k < 0.45:
            self.emit("%s = %s - %d" % (v, v, r.choice([1, 2, 3, 4, 7, 9, 13, 20])))
        elif k < 0.6:
            self.emit("%s = (- %s) - 1" % (v, v))
        elif k < 0.75:
            self.emit("%s = %s * (-3)" % (v, v))
        elif k < 0.9:
            w = self.pick_var("int", pure_only=True)
            self.emit("%s = %s - (%s %% 7) - 1" % (v, v, w) if w and w != v else "%s = %s - 5" % (v, v))
        # (else: left as it is - the non-negative case)
        d1, d2 = r.choice([1, 2, 3, 4, 5, 7, 8, 10, 16]), r.choice([2, 3, 5, 6, 9])
        forms = ["%s // %d" % (v, d1), "%s %% %d" % (v, d1), "%s >> %d" % (v, r.choice([0, 1, 3, 31, 63])),
                 "%s << %d" % (v, r.choice([0, 1, 5])), "%s < %d" % (v, r.choice([0, 1, 5])), "%s >= 0" % v,
                 "(%s + 1) // %d" % (v, d2), "(- %s) %% %d" % (v, d2), "%s // %d %% %d" % (v, d1, d2),
                 "%d // (%s | 1)" % (r.choice([7, 100]), v), "%s / %d" % (v, d1)]
        r.shuffle(forms)
        self.emit("print(%s)" % ", ".join(forms[:r.randint(3, 6)]))
        self.count("range-probe")

    def stmt_range_local(self):
        r = self.rng
        v = self.fresh("n")
        self.emit("local %s: integer = %d" % (v, r.choice([0, 1, 2, 6, 10, 255])), None)
        self.l[-1] = self.n[-1].replace(": integer", "")
        self.scopes[-1].append((v, "int", False))
        self.range_probe(v)

    def stmt_for(self):
        r = self.rng
        i = self.fresh("i")
        a = r.choice(["1", "0", "-3", "10", self.bounded_int()])
        b = r.choice(["5", "3", "0", "-6", "12", self.bounded_int()])
        kind = r.random()
        if kind < 0.4:
            hdr = "for %s = %s, %s do" % (i, a, b)
        elif kind < 0.75:
            hdr = "for %s = %s, %s, %s do" % (i, a, b, r.choice(["1", "2", "3", "-1", "-2", "7"]))
        else:
            s = self.fresh("s")
            self.emit("local %s: integer = %s" % (s, r.choice(["1", "2", "-1", "-3", "4"])), "local %s = %s" % (s, r.choice(["1"]) if False else self.n[-1].split("= ")[-1] if False else "0"))
            # (keep both texts identical: rewrite the lua line from the nelua one)
            self.l[-1] = self.n[-1].replace(": integer", "")
            self.scopes[-1].append((s, "int", False))
            hdr = "for %s = %s, %s, %s do" % (i, a, b, s)
        self.emit(hdr)
        self.scopes.append([(i, "int", False)])
        self.ind += 1
        self.loop_depth += 1
        use_continue = r.random() < 0.25
        lbl = self.fresh("next")
        if r.random() < 0.4:
            # the control variable is an ordinary local of the body (Lua and Nelua iterate on a hidden copy)
            self.range_probe(i)
        for k in range(r.randint(1, 3)):
            self.stmt()
            if k == 0 and r.random() < 0.3:
                c, _ = self.expr("bool", 1, pure=True, nocall=True)
                self.emit("if %s then %s end" % (c, ("goto " + lbl) if use_continue else "break"))
                self.count("goto" if use_continue else "break")
        if use_continue:
            self.emit("::%s::" % lbl)
        self.loop_depth -= 1
        self.ind -= 1
        self.scopes.pop()
        self.emit("end")
        self.count("for")

    def bounded_int(self):
        v = self.pick_var("int", pure_only=True)
        return "(%s %% 7)" % v if v else "4"

    def stmt_while(self):
        r = self.rng
        c = self.fresh("c")
        self.emit("local %s: integer = 0" % c, "local %s = 0" % c)
        if r.random() < 0.5:
            cond, _ = self.expr("bool", 1, pure=True, nocall=True)
            self.emit("while %s < %d and %s do" % (c, r.randint(1, 5), cond))
            self.ind += 1
            self.emit("%s = %s + 1" % (c, c))
            self.ind -= 1
            self.loop_depth += 1
            self.block(r.randint(1, 2))
            self.loop_depth -= 1
            self.emit("end")
            self.count("while")
        else:
            self.emit("repeat")
            self.ind += 1
            self.emit("%s = %s + 1" % (c, c))
            self.ind -= 1
            self.scopes.append([])
            self.ind += 1
            self.loop_depth += 1
            for _ in range(r.randint(1, 2)):
                self.stmt()
            self.loop_depth -= 1
            # the until condition sees the body's locals
            cond, _ = self.expr("bool", 1, pure=True, nocall=True)
            self.ind -= 1
            self.emit("until %s >= %d or %s" % (c, r.randint(1, 4), cond))
            self.scopes.pop()
            self.count("repeat")

    def stmt_call(self):
        fs = self.funcs
        if not fs:
            return self.stmt_print()
        name, argts, rets, eff = self.rng.choice(fs)
        args = [self.expr(a, 1, pure=True, nocall=True)[0] for a in argts]
        if len(rets) >= 2:
            names = [self.fresh("r") for _ in rets]
            self.emit("local %s = %s(%s)" % (", ".join("%s: %s" % (n_, TNAME[t]) for n_, t in zip(names, rets)), name, ", ".join(args)),
                      "local %s = %s(%s)" % (", ".join(names), name, ", ".join(args)))
            for n_, t in zip(names, rets):
                self.scopes[-1].append((n_, t, False))
            self.emit("print(%s)" % ", ".join(names))
            self.count("multi-return")
        elif rets:
            v = self.fresh("r")
            self.emit("local %s: %s = %s(%s)" % (v, TNAME[rets[0]], name, ", ".join(args)), "local %s = %s(%s)" % (v, name, ", ".join(args)))
            if self.rng.random() < 0.7:
                self.scopes[-1].append((v, rets[0], False))
            else:
                self.count("unused-local-from-call")       # never read again
            self.count("call-stmt")
        else:
            self.emit("%s(%s)" % (name, ", ".join(args)))
            self.count("call-stmt")

    def stmt(self):
        r = self.rng.random()
        depth = len(self.scopes)
        if r < 0.22:
            self.stmt_print()
        elif r < 0.42:
            self.stmt_decl()
        elif r < 0.6:
            self.stmt_assign()
        elif r < 0.7 and depth < 5:
            self.stmt_if()
        elif r < 0.8 and depth < 4 and self.loop_depth < 2:
            self.stmt_for()
        elif r < 0.86 and depth < 4 and self.loop_depth < 2:
            self.stmt_while()
        elif r < 0.92:
            self.stmt_call()
        elif r < 0.96 and getattr(self, "indirect", None):
            self.stmt_indirect()
        elif r < 0.975:
            self.stmt_range_local()
        else:
            self.emit("do")
            self.block(self.rng.randint(1, 3))
            self.emit("end")
            self.count("do")

    # ---- state reached only through a record: stores to it are not seen by the analyzer's sideeffect
    #      rule; it is read by dedicated print statements only, and the functions touching it are called
    #      only as a whole statement / initialiser (never next to another operand) ----
    def gen_indirect(self):
        self.emit("local St = @record{a: integer, b: integer, c: number}", "local St = {}")
        self.emit("", "St.__index = St")
        self.emit("function St:bump(x: integer): integer", "function St:bump(x)")
        self.emit("  self.a = self.a + x")
        self.emit("  return self.a")
        self.emit("end")
        self.emit("local st: St = {a = 1, b = 2, c = 0.5}", "local st = setmetatable({a = 1, b = 2, c = 0.5}, St)")
        kinds = [("ind_a", "int", ["int"], ["st.a = st.a * 3 + a0", "return st.a"]),
                 ("ind_b", "bool", ["int", "int"], ["st.b = st.b + a0 - a1", "return st.b > a0"]),
                 ("ind_c", "flt", ["flt"], ["st.c = st.c + a0 * 0.5", "st.b = st.b + 1", "return st.c"]),
                 ("ind_n", "int", [], ["st.b = st.b ~ 5", "return 7"])]
        self.indirect = []
        for name, rt, argts, body in kinds:
            args = ["a%d" % i for i in range(len(argts))]
            self.emit("local function %s(%s): %s" % (name, ", ".join("%s: %s" % (a, TNAME[t]) for a, t in zip(args, argts)), TNAME[rt]),
                      "local function %s(%s)" % (name, ", ".join(args)))
            for b in body:
                self.emit("  " + b)
            self.emit("end")
            self.indirect.append((name, rt, argts))
        self.indirect.append(("st:bump", "int", ["int"]))
        # a function returning a record: its result is used through a field access
        self.emit("local Rc = @record{p: integer, q: integer}", "")
        self.emit("local function ind_r(a0: integer): Rc", "local function ind_r(a0)")
        self.emit("  st.a = st.a + a0")
        self.emit("  return Rc{p = a0, q = st.b}", "  return {p = a0, q = st.b}")
        self.emit("end")
        self.indirect.append(("ind_r", "rec", ["int"]))

    def init_shape(self, call, rt):
        """an initializer built from every expression constructor of the shared grammar around one effectful call
        (the call stays the only call and no variable a function may write is read next to it)"""
        r = self.rng
        if rt == "rec":
            call, rt = call + r.choice([".p", ".q"]), "int"           # field access
            self.count("shape-field")
        k = r.random()
        if k < 0.25:
            return call, rt
        if rt == "int":
            v = self.pick_var("int", pure_only=True) or "3"
            form = r.choice(["(%s + 1)", "(- %s)", "(~ %s)", "(%s == 7)", "tostring(%s)", "(2 * %s - V)", "(%s // 3 %% 2)", "(%s < V)", "((%s) & 255)"])
            self.count("shape-" + form.split("%s")[0].strip("( ") + "int")
            return (form % call).replace("V", v), ("bool" if "==" in form or "<" in form else "str" if "tostring" in form else "int")
        if rt == "flt":
            form = r.choice(["(%s * 0.5)", "(- %s)", "(%s < 1.0)", "(%s / 3)"])
            self.count("shape-flt")
            return form % call, ("bool" if "<" in form else "flt")
        if rt == "bool":
            b = self.pick_var("bool", pure_only=True) or "true"
            form = r.choice(["(not %s)", "(%s and B)", "(%s or B)", "(%s == B)"])
            self.count("shape-bool")
            return (form % call).replace("B", b), "bool"
        return call, rt

    def stmt_indirect(self):
        r = self.rng
        name, rt, argts = r.choice(self.indirect)
        args = ", ".join(self.expr(a, 2, pure=True, nocall=True)[0] for a in argts)
        k = r.random()
        if k < 0.5 or rt == "rec":
            # a local that is never read afterwards (not registered in the scope): the call must still happen,
            # whatever expression it is wrapped in
            u = self.fresh("unused")
            init, it = self.init_shape("%s(%s)" % (name, args), rt)
            if r.random() < 0.5:
                self.emit("local %s: %s = %s" % (u, TNAME[it], init), "local %s = %s" % (u, init))
            else:
                self.emit("local %s = %s" % (u, init))
            self.count("unused-local-from-call")
        elif k < 0.7:
            self.emit("%s(%s)" % (name, args))
            self.count("indirect-call-stmt")
        else:
            v = self.pick_var(rt, pure_only=True)
            if v:
                self.emit("%s = %s(%s)" % (v, name, args))
            else:
                self.emit("%s(%s)" % (name, args))
            self.count("indirect-call-assign")
        if r.random() < 0.5:
            self.emit("print(st.a, st.b, st.c)")

    # ---- functions ----
    def gen_function(self, effectful):
        r = self.rng
        name = self.fresh("f")
        argts = [r.choice(["int", "int", "flt", "bool", "str"]) for _ in range(r.randint(0, 3))]
        nret = r.choice([1, 1, 1, 2, 0 if effectful else 1])
        rets = [r.choice(["int", "int", "flt", "bool", "str"]) for _ in range(nret)]
        argn = [self.fresh("a") for _ in argts]
        rt = "" if not rets else (": " + TNAME[rets[0]] if len(rets) == 1 else ": (" + ", ".join(TNAME[t] for t in rets) + ")")
        self.emit("local function %s(%s)%s" % (name, ", ".join("%s: %s" % (a, TNAME[t]) for a, t in zip(argn, argts)), rt),
                  "local function %s(%s)" % (name, ", ".join(argn)))
        saved, saved_in = self.scopes, self.in_func
        # a function sees its parameters and (if effectful) the shared chunk-level variables
        self.scopes = [[(s_, t_, True) for (s_, t_) in self.shared] if effectful else [], [(a, t, False) for a, t in zip(argn, argts)]]
        self.in_func = True
        self.ind += 1
        for t_ in ("int", "flt", "bool", "str"):
            if not self.vars_of(t_, pure_only=True):
                self.declare(t_)
        if effectful:
            self.emit("print(%s)" % ", ".join(['"%s"' % name] + argn[:2]))
            if self.shared:
                s_, t_ = r.choice(self.shared)
                e, _ = self.expr(t_, 1, nocall=True)
                self.emit("%s = %s" % (s_, e))
        for _ in range(r.randint(0, 3)):
            k = r.random()
            if k < 0.5:
                self.stmt_decl()
            elif k < 0.8 and self.vars_of("int"):
                self.stmt_assign()
            else:
                self.stmt_if_noret()
        if rets:
            self.emit("return %s" % ", ".join(self.expr(t, 1, nocall=True)[0] for t in rets))
        self.ind -= 1
        self.emit("end")
        self.scopes, self.in_func = saved, saved_in
        self.funcs.append((name, argts, rets, effectful))
        self.count("function-eff" if effectful else "function-pure")

    def stmt_if_noret(self):
        c, _ = self.expr("bool", 1, nocall=True)
        self.emit("if %s then" % c)
        self.scopes.append([])
        self.ind += 1
        self.stmt_decl()
        self.stmt_assign()
        self.ind -= 1
        self.scopes.pop()
        self.emit("end")

    def gen_recursive(self):
        name = self.fresh("rec")
        kind = self.rng.choice(["fib", "gcd", "pow", "sum"])
        if kind == "fib":
            body = ["if n < 2 then return n end", "return %s(n - 1, m) + %s(n - 2, m) * m" % (name, name)]
        elif kind == "gcd":
            body = ["if m == 0 then return n end", "return %s(m, n %% m)" % name]
        elif kind == "pow":
            body = ["if n <= 0 then return 1 end", "return m * %s(n - 1, m)" % name]
        else:
            body = ["if n <= 0 then return m end", "return %s(n - 1, m + n * n)" % name]
        self.emit("local function %s(n: integer, m: integer): integer" % name, "local function %s(n, m)" % name)
        self.ind += 1
        for b in body:
            self.emit(b)
        self.ind -= 1
        self.emit("end")
        args = {"fib": (12, 3), "gcd": (1071, 462), "pow": (40, 3), "sum": (50, 7)}[kind]
        self.emit("print(%s(%d, %d))" % (name, args[0], args[1]))
        # callable from expressions with small arguments
        self.count("recursion-" + kind)

    def gen_require_sites(self):
        """`require` of a module without return value at several sites: in a function called with false, then
        with true, in a branch that is not taken, twice at top level - in a random order, so that the first
        site in the text is often not the first one executed.  The module body must run exactly once, at
        the first require that is executed (it prints and counts)."""
        r = self.rng
        self.emit("global mody_count: integer = 0", "mody_count = 0")
        self.emit("local function req_late(on: boolean)", "local function req_late(on)")
        self.emit("  if on then")
        self.emit("    print('req_late')")
        self.emit("    require 'mody'")
        self.emit("  end")
        self.emit("end")
        sites = ["req_late(false)", "if mody_count > 100 then require 'mody' end", "require 'mody'", "require 'mody'",
                 "req_late(true)", "do require 'mody' end"]
        r.shuffle(sites)
        for i, st_ in enumerate(sites):
            self.emit(st_)
            self.emit("print('site', %d, mody_count)" % i)
        self.count("require-sites")

    def program(self):
        r = self.rng
        self.emit("require 'string'", "")
        if self.modname:
            self.emit("require '%s'" % self.modname)
            self.emit("require '%s'" % self.modname)       # a module body runs once
            self.emit("print(%s_twice(21))" % self.modname)
            if r.random() < 0.7:
                self.gen_require_sites()
        # chunk-level variables; some are written by functions ("shared")
        for t in ["int", "int", "int", "flt", "flt", "bool", "str"]:
            self.declare(t)
        for t in ["int", "flt", "int"]:
            nme = self.declare(t, shared=True)
            self.shared.append((nme, t))
        for _ in range(r.randint(1, 3)):
            self.gen_function(False)
        for _ in range(r.randint(1, 2)):
            self.gen_function(True)
        if r.random() < 0.7:
            self.gen_recursive()
        if r.random() < 0.6:
            self.gen_indirect()
        for _ in range(self.size):
            self.stmt()
        # final state
        if getattr(self, "indirect", None):
            self.emit("print(st.a, st.b, st.c)")
        for t in ["int", "flt", "bool", "str"]:
            vs = [v for v in self.vars_of(t) if self.visible_type(v)[0] == t][:6]
            if vs:
                self.emit("print(%s)" % ", ".join(vs))
        return "\n".join(self.n) + "\n", "\n".join(self.l) + "\n"


def gen_module(name):
    """a required module: prints when its body runs and defines a global function"""
    n = ("print('loading %s')\nglobal function %s_twice(x: integer): integer\n  return x * 2\nend\n" % (name, name))
    l = ("print('loading %s')\nfunction %s_twice(x)\n  return x * 2\nend\n" % (name, name))
    return n, l


def gen_module_noret(name):
    """a module without return value: prints, loops and counts how often its body ran"""
    t = ("print('%s: loading')\nlocal i = 0\nwhile i < 3 do\n  i = i + 1\nend\n%s_count = %s_count + 1\nprint('%s: loaded', i, %s_count)\n"
         % (name, name, name, name, name))
    return t, t


def gen_program(rng, size=28, modname=None):
    g = Gen(rng, size, modname)
    n, l = g.program()
    return n, l, g.stats


# ---------------------------------------------------------------------------
# evaluation-order cases (core 3): an expression over variables and calls, as a model case and as a
# pair of programs
# ---------------------------------------------------------------------------
def gen_order_case(rng):
    """returns (funcs, store, kinds, expr).
    kinds[x]: 'l' chunk-level local, 'g' global, 'r' field of a chunk-level record (a write to it inside
    a function is not seen by the analyzer's sideeffect rule);
    funcs = [(id, event, base, retvar or None, writes, arity)], writes = [(direct, var, val, inc)]"""
    nvars = rng.randint(1, 3)
    kinds = [rng.choice("lgr") for _ in range(nvars)]
    store = [rng.randint(1, 9) for _ in range(nvars)]
    funcs = []
    for i in range(1, rng.randint(2, 4) + 1):
        event = rng.random() < 0.55
        writes = []
        if rng.random() < 0.6:
            x = rng.randrange(nvars)
            inc = rng.random() < 0.4
            writes = [(kinds[x] != "r", x, (rng.choice([1, 2, 3]) if inc else rng.choice([10, 20, 30, 40, 50]) + i), inc)]
        retvar = rng.randrange(nvars) if rng.random() < 0.3 else None
        funcs.append((i, event, 100 * i, retvar, writes, rng.choice([0, 0, 1, 2, 3])))

    def ex(depth):
        r = rng.random()
        if depth <= 0 or r < 0.3:
            if rng.random() < 0.75:
                x = rng.randrange(nvars)
                return ("l" if kinds[x] == "l" else "g", x)
            return ("c", rng.randint(0, 5))
        if r < 0.6:
            f = rng.choice(funcs)
            return ("call", f[0], [ex(depth - 1) for _ in range(f[5])])
        return (rng.choice(["add", "sub", "mul", "lt", "add"]), ex(depth - 1), ex(depth - 1))
    return funcs, store, kinds, ex(rng.choice([1, 2, 3]))


def order_model_line(case):
    funcs, store, kinds, e = case

    def hx(v):
        return ("-%x" % -v) if v < 0 else "%x" % v

    def pe(e):
        if e[0] == "c":
            return "c %s" % hx(e[1])
        if e[0] in ("l", "g"):
            return "%s %d" % (e[0], e[1])
        if e[0] == "call":
            return "call %d %d %s" % (e[1], len(e[2]), " ".join(pe(a) for a in e[2]))
        return "%s %s %s" % (e[0], pe(e[1]), pe(e[2]))
    fs = " ".join("%d %d %s %s %d %s" % (i, 1 if ev else 0, hx(base), "-" if rv is None else str(rv), len(ws),
                                         " ".join("%d %d %s %d" % (1 if d else 0, x, hx(v), 1 if inc else 0) for d, x, v, inc in ws))
                  for (i, ev, base, rv, ws, ar) in funcs)
    return "order F %d %s S %d %s E %s" % (len(funcs), fs, len(store), " ".join(hx(v) for v in store), pe(e))


def order_programs(case):
    """(nelua text, lua text): prints the value, then the variables; functions with an event print their arguments"""
    funcs, store, kinds, e = case
    n, l = [], []
    rfields = [x for x, k in enumerate(kinds) if k == "r"]
    if rfields:
        n.append("local R = @record{%s}" % ", ".join("x%d: integer" % x for x in rfields))
        n.append("local st: R = {%s}" % ", ".join("x%d = %d" % (x, store[x]) for x in rfields))
        l.append("local st = {%s}" % ", ".join("x%d = %d" % (x, store[x]) for x in rfields))
    name = lambda x: ("st.x%d" % x) if kinds[x] == "r" else "x%d" % x
    for x, (k, v) in enumerate(zip(kinds, store)):
        if k == "g":
            n.append("global x%d: integer = %d" % (x, v))
            l.append("x%d = %d" % (x, v))
        elif k == "l":
            n.append("local x%d: integer = %d" % (x, v))
            l.append("local x%d = %d" % (x, v))
    for (i, ev, base, rv, ws, ar) in funcs:
        args = ["a%d" % k for k in range(ar)]
        n.append("local function f%d(%s): integer" % (i, ", ".join(a + ": integer" for a in args)))
        l.append("local function f%d(%s)" % (i, ", ".join(args)))
        body = []
        if ev:
            body.append("  print(%s)" % ", ".join(["'f%d'" % i] + args))
        for d, x, v, inc in ws:
            body.append("  %s = %s" % (name(x), ("%s + %d" % (name(x), v)) if inc else str(v)))
        body.append("  return %s" % " + ".join([str(base)] + args + ([name(rv)] if rv is not None else [])))
        body.append("end")
        n += body
        l += body

    def pe(e):
        if e[0] == "c":
            return str(e[1])
        if e[0] in ("l", "g"):
            return name(e[1])
        if e[0] == "call":
            return "f%d(%s)" % (e[1], ", ".join(pe(a) for a in e[2]))
        if e[0] == "lt":
            return "((%s < %s) and 1 or 0)" % (pe(e[1]), pe(e[2]))
        return "(%s %s %s)" % (pe(e[1]), {"add": "+", "sub": "-", "mul": "*"}[e[0]], pe(e[2]))
    last = ["print(%s)" % pe(e), "print(%s)" % ", ".join(name(x) for x in range(len(store)))]
    return "\n".join(n + last) + "\n", "\n".join(l + last) + "\n"


def order_canon(stdout):
    """program output -> 'value;store;trace' in the driver's format"""
    lines = [x for x in stdout.split("\n") if x]
    if len(lines) < 2:
        return None

    def hx(s):
        v = int(s)
        return ("-%x" % -v) if v < 0 else "%x" % v
    trace = []
    for ln in lines[:-2]:
        w = ln.split("\t")
        trace.append("%s:%s" % (w[0][1:], ",".join(hx(a) for a in w[1:])))
    return "%s;%s;%s" % (hx(lines[-2]), ",".join(hx(a) for a in lines[-1].split("\t")), "|".join(trace))
