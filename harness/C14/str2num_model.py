"""C14 - an executable model of strconv.str2num's DECIMAL branch as the code is today: the digits are accumulated
and scaled by powers of ten in C long double (x87 extended precision: 64-bit significand, each operation rounded to
nearest-even), the result is then converted to binary64 - a second rounding.  Used by checks/C14.py as the model
voice of tonumber (it must reproduce the compiled library bit for bit) and to decide whether a result that is not
correctly rounded is the known double-rounding defect (the model predicts exactly that wrong value) or something
else (a VIOLATION).  The final conversion handles gradual underflow and overflow (None = infinity); the intermediate long double range is never left by decimal texts of binary64 values."""
from fractions import Fraction


def rnd(fr, prec):
    """round a non-negative Fraction to prec significant bits, ties to even (unbounded exponent)"""
    if fr == 0: return fr
    n, d = fr.numerator, fr.denominator
    e = n.bit_length() - d.bit_length()
    # find e with 2^e <= fr < 2^(e+1)
    if (n << max(0, -e)) < (d << max(0, e)): e -= 1
    sh = prec - 1 - e
    num = n << sh if sh >= 0 else n
    den = d if sh >= 0 else d << (-sh)
    q, r = divmod(num, den)
    if 2 * r > den or (2 * r == den and q & 1): q += 1
    return Fraction(q, 1) / (Fraction(2) ** sh) if sh >= 0 else Fraction(q) * (1 << (-sh))

def dbl(fr):
    """round a non-negative Fraction to binary64, ties to even: 53 bits in the normal range, the 2^-1074 grid below
    2^-1022 (gradual underflow), infinity (None) from the overflow threshold on"""
    if fr == 0:
        return fr
    if fr < Fraction(1, 2 ** 1022):
        q, r = divmod(fr.numerator * 2 ** 1074, fr.denominator)
        if 2 * r > fr.denominator or (2 * r == fr.denominator and q & 1):
            q += 1
        return Fraction(q, 2 ** 1074)
    r = rnd(fr, 53)
    return None if r >= 2 ** 1024 else r


def str2num_x87(s):
    """strconv.str2num, decimal branch, in x87 extended precision (64-bit significand)"""
    s = s.strip()
    neg = s.startswith('-')
    if s[:1] in '+-': s = s[1:]
    L = lambda fr: rnd(fr, 64)
    num = Fraction(0); exp = 0; gotfrac = False
    i = 0
    while i < len(s) and s[i] == '0': i += 1
    while i < len(s):
        c = s[i]
        if c.isdigit():
            num = L(L(num * 10) + int(c))
            if gotfrac: exp -= 1
        elif c == '.':
            gotfrac = True
        else:
            break
        i += 1
    if i < len(s) and s[i] in 'eE':
        e = int(s[i+1:]); e = max(-5000, min(5000, e)); exp += e
    if exp != 0:
        inv = exp < 0
        if inv: exp = -exp
        scale = Fraction(1)
        while exp >= 256:
            scale = L(scale * L(Fraction(10) ** 256)); exp -= 256
        for k in (128, 64, 32, 16, 8, 4, 2, 1):
            if exp >= k:
                scale = L(scale * L(Fraction(10) ** k)); exp -= k
        if inv: scale = L(1 / scale)
        num = L(num * scale)
    r = dbl(num)
    if r is None:
        return None                      # overflow: infinity
    return -r if neg else r

