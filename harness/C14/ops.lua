-- C14 implementation-side harness (compiler half): calls the real literal reader (utils/bn.lua bn.from),
-- literal typing (analyzer.lua visitors.Number) and C literal printer (cemitter.lua
-- CEmitter:add_scalar_literal, bn.todecsci) of /repo/lualib on one case per line.
local bn = require 'nelua.utils.bn'
local typedefs = require 'nelua.typedefs'
local primtypes = typedefs.primtypes
local analyzer = require 'nelua.analyzer'
local CEmitter = require 'nelua.cemitter'

local fakecontext = {pragmas = {}, ensure_builtin = function(_, name) return name end}

local function show(v)
  if bn.isbint(v) or math.type(v) == 'integer' then return bn.todecint(bn.parse(v)) end
  return 'float:' .. string.format('%.17g', v) .. ':' .. string.format('%016x', (string.unpack('<I8', string.pack('<d', v))))
end

local ops = {}
function ops.read(a)
  local v, base = bn.from(a[1])
  return show(v) .. ' ' .. tostring(base)
end
function ops.type(a)
  local node = {attr = {}, a[1], a[2] ~= '-' and a[2] or nil,
    raisef = function() error('REJECT', 0) end}
  local opts = a[3] ~= '-' and {desiredtype = primtypes[a[3]]} or nil
  analyzer.visitors.Number(nil, node, opts)
  local t = node.attr.type
  return (t.is_integral and 'int ' or 'float ') .. t.name .. ' ' .. show(node.attr.value)
end
function ops.emit(a)
  local T = primtypes[a[1]]
  local v = bn.from(a[2])
  local base = tonumber(a[3])
  if base == 0 then base = nil end
  local e = CEmitter(fakecontext)
  e:add_scalar_literal(v, T, base)
  return table.concat(e.chunks)
end
function ops.emitf(a) -- float literal: type name, 16 hex digits of the double
  local T = primtypes[a[1]]
  local v = (string.unpack('<d', string.pack('<I8', tonumber(a[2], 16))))
  local e = CEmitter(fakecontext)
  e:add_scalar_literal(v, T, 10)
  return table.concat(e.chunks)
end
function ops.todecsci(a)
  local v = (string.unpack('<d', string.pack('<I8', tonumber(a[1], 16))))
  return bn.todecsci(v, tonumber(a[2]), a[3] == '1')
end
function ops.typeinfo(a)
  local T = primtypes[a[1]]
  local lk = 0
  if T.is_clong or T.is_culong then lk = 1 elseif T.is_clonglong or T.is_culonglong then lk = 2 end
  return string.format('%d %s %d', T.bitsize, tostring(not T.is_unsigned), lk)
end

for line in io.lines() do
  local a = {}
  for w in line:gmatch('%S+') do a[#a + 1] = w end
  if #a > 0 then
    local f = ops[table.remove(a, 1)]
    if not f then print('?unknown-op') else
      local ok, r = pcall(f, a)
      if ok then print(r) elseif r == 'REJECT' then print('reject') else print('!error ' .. tostring(r):gsub('\n', ' ')) end
    end
  end
end
