-- C14 reference for the malformed-numeral stream: what Lua 5.4 makes of a string as an integer.
-- lines:  "s <hex>"          -> tonumber(s): the value when it is an integer, "nil" otherwise (no numeral, or a float)
--         "b <hex> <base>"   -> tonumber(s, base) or "nil"
local function unhex(h) return (h:gsub('..', function(x) return string.char(tonumber(x, 16)) end)) end
for line in io.lines() do
  local k, h, b = line:match('^(%a) x?(%x*) ?(%d*)$')
  local s = unhex(h or '')
  local v
  if k == 'b' then v = tonumber(s, tonumber(b)) else v = tonumber(s) end
  if math.type(v) == 'integer' then print(string.format('%d', v)) else print('nil') end
end
