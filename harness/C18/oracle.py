"""Reference semantics of the coroutine library for the schedule language of codriver.nelua.

Written from the documentation comments of lib/coroutine.nelua, the API comments of minicoro
(`mco_*` prototypes) and Lua's coroutine semantics - NOT from the Coq model: the active
coroutines are kept as a call stack (like Lua's C stack of resumes) instead of prev pointers,
storages are bytearrays with all-or-nothing typed pushes.  It prints the same lines as the
implementation-side harness so the three outputs can be compared line by line.

The property oracle: statuses are the documented ones, values come back LIFO and unmodified,
an invalid transition returns its documented error and changes nothing."""
import struct

CAP = 1024
SHAPES = {0: ["q"], 1: ["q", "i", "B"], 2: ["B", "q"], 3: ["big", "q"]}
SIZE = {"q": 8, "i": 4, "B": 1, "big": 256}

E_INVALID_CO = "Invalid coroutine"
E_NOT_SUSPENDED = "Coroutine not suspended"
E_NOT_RUNNING = "Coroutine not running"
E_NO_SPACE = "Not enough space"
E_INVALID_PTR = "Invalid pointer"
E_INVALID_OP = "Invalid operation"
P_POP_ARG = "failed to pop a coroutine body argument"
P_PUSH_RET = "failed to push a coroutine body return"


def enc(kind, v):
    if kind == "q":
        return struct.pack("<q", v)
    if kind == "i":
        return struct.pack("<i", v)
    if kind == "B":
        return struct.pack("B", v)
    return bytes((v + i) & 0xFF for i in range(256))


def enc_shape(sh, vals):
    kinds = SHAPES[sh]
    vals = list(vals) + [0] * 3
    return [enc(k, vals[i]) for i, k in enumerate(kinds)]


class Co:
    def __init__(self, kind, reg):
        self.status = "suspended"
        self.store = bytearray()
        self.depth = 0
        self.started = False
        self.kind = kind
        self.reg = reg


class Ref:
    def __init__(self, gc=True, nslots=24, strict=True):
        # strict: the property's reading "an invalid transition reports failure and changes nothing": a refused
        # resume(co, ...) takes its arguments back.  strict=False follows the code as it is (the arguments stay
        # pushed: known finding) and is used to drive the generators and to attribute a divergence.
        self.strict = strict
        self.gc = gc
        self.nslots = nslots
        self.slots = {}
        self.active = []        # call stack of resumed coroutines; [] = the main program runs
        self.main_depth = 0
        self.done = False
        self.out = []

    # ---- helpers
    def who(self):
        return self.active[-1] if self.active else None

    def wname(self, w):
        return "main" if w is None else "c%d" % w

    def depth(self, w):
        return self.main_depth if w is None else self.slots[w].depth

    def line(self, w, d, tag, *fields):
        self.out.append("= %s d%d %s" % (self.wname(w), d, "|".join([tag] + [str(f) for f in fields])))

    def here(self, tag, *fields):
        w = self.who()
        self.line(w, self.depth(w), tag, *fields)

    @staticmethod
    def res(err):
        return ("true", "") if err is None else ("false", err)

    def panic(self, w, msg):
        self.line(w, self.depth(w), "panic", msg)
        self.done = True

    # ---- storage (all-or-nothing typed push, LIFO typed pop)
    def push_values(self, k, vals):
        co = self.slots.get(k)
        if not vals:
            return None
        if co is None:
            return E_INVALID_CO
        total = 0
        for v in vals:
            # values are pushed one by one: the first one that does not fit fails the call
            if len(v) > 0 and len(co.store) + total + len(v) > CAP:
                return E_NO_SPACE
            total += len(v)
        for v in vals:
            co.store += v
        return None

    def pop_values(self, k, sizes):
        """-> (err, values in argument order); pops the last argument first, stops at the first failure
        (what was popped before stays popped: 'the values may not be set')."""
        co = self.slots.get(k)
        if not sizes:
            return None, []
        if co is None:
            return E_INVALID_CO, []
        got = []
        for n in reversed(sizes):
            if n > 0 and n > len(co.store):
                return E_NO_SPACE, []
            if n > 0:
                got.append(bytes(co.store[-n:]))
                del co.store[-n:]
            else:
                got.append(b"")
        return None, list(reversed(got))

    # ---- control transfer
    def enter(self, k):
        """control arrives in coroutine k (it is on top of the call stack already)"""
        co = self.slots[k]
        if co.started:
            self.line(k, co.depth, "yield", "true", "")
            return
        co.started = True
        sizes = [SIZE[x] for x in SHAPES[1]] if co.kind == 1 else []
        err, vals = self.pop_values(k, sizes)
        if err is not None:
            self.panic(k, P_POP_ARG)
            return
        self.line(k, 0, "start", *[v.hex() for v in vals])

    def back(self):
        w = self.who()
        self.line(w, self.depth(w), "resume", "true", "")

    def body_returns(self, k, rets):
        co = self.slots[k]
        self.line(k, 0, "return")
        if co.kind == 1:
            for v in rets:
                if len(co.store) + len(v) > CAP:
                    self.panic(k, P_PUSH_RET)
                    return
                co.store += v
        co.status = "dead"
        assert self.active and self.active[-1] == k
        self.active.pop()
        if self.active:
            self.slots[self.active[-1]].status = "running"
        self.back()

    def status_fields(self, k):
        co = self.slots.get(k)
        if co is None:
            return ["dead", 0, "true", "false", "nil"]
        # who resumed it: the coroutine below it on the call stack (nil: the main program, or not active)
        prev = "nil"
        if k in self.active:
            i = self.active.index(k)
            if i > 0:
                prev = "c%d" % self.active[i - 1]
        return [co.status, len(co.store), "true", "true" if co.reg else "false", prev]

    # ---- one command
    def step(self, idx, words):
        if self.done:
            return
        w = self.who()
        self.out.append("> %d %s d%d" % (idx, self.wname(w), self.depth(w)))
        c = words[0]
        a = [int(x) for x in words[1:]]
        if c == "create":
            k, kind = a
            if k in self.slots:
                self.here("create", "busy")
            else:
                self.slots[k] = Co(kind, self.gc)
                self.here("create", "ok")
        elif c in ("resume", "resumev"):
            k = a[0]
            vals = enc_shape(a[1], a[2:]) if c == "resumev" else []
            co = self.slots.get(k)
            # documented order: extra arguments are pushed before resuming
            err = self.push_values(k, vals)
            pushed_ok = err is None
            if err is None:
                if co is None:
                    err = E_INVALID_CO
                elif co.status != "suspended":
                    err = E_NOT_SUSPENDED
            if err is not None:
                if self.strict and co is not None and pushed_ok and vals:
                    del co.store[-sum(len(v) for v in vals):]      # nothing changes on a refused resume
                self.here("resume", *self.res(err))
                return
            if self.active:
                self.slots[self.active[-1]].status = "normal"
            co.status = "running"
            self.active.append(k)
            self.enter(k)
        elif c in ("yield", "yieldv"):
            vals = enc_shape(a[0], a[1:]) if c == "yieldv" else []
            if not self.active:
                self.here("yield", *self.res(E_INVALID_CO))
                return
            k = self.active[-1]
            err = self.push_values(k, vals)
            if err is not None:
                self.here("yield", *self.res(err))
                return
            self.slots[k].status = "suspended"
            self.active.pop()
            if self.active:
                self.slots[self.active[-1]].status = "running"
            self.back()
        elif c == "push":
            k = a[0]
            err = self.push_values(k, enc_shape(a[1], a[2:]))
            if err is None and k not in self.slots:
                err = E_INVALID_CO
            self.here("push", *self.res(err))
        elif c == "pop":
            k, sh = a
            err, vals = self.pop_values(k, [SIZE[x] for x in SHAPES[sh]])
            if err is None:
                self.here("pop", "true", "", *[v.hex() for v in vals])
            else:
                self.here("pop", "false", err)
        elif c == "peek":
            k, n = a
            co = self.slots.get(k)
            if co is None:
                self.here("peek", "false", E_INVALID_CO)
            elif n == 0:
                self.here("peek", "true", "", "")
            elif n > len(co.store):
                self.here("peek", "false", E_NO_SPACE)
            else:
                self.here("peek", "true", "", bytes(co.store[-n:]).hex())
        elif c == "drop":
            k, n = a
            co = self.slots.get(k)
            if co is None:
                self.here("drop", "false", E_INVALID_CO)
            elif n > len(co.store):
                self.here("drop", "false", E_NO_SPACE)
            else:
                if n:
                    del co.store[-n:]
                self.here("drop", "true", "")
        elif c == "status":
            k = a[0]
            if k == -1:
                self.here("status", "normal" if self.active else "running", 0, "true", "false", "nil")
            else:
                self.here("status", *self.status_fields(k))
        elif c == "isyieldable":
            self.here("isyieldable", "true" if self.active else "false")
        elif c == "running":
            if self.active:
                self.here("running", self.active[-1], "false")
            else:
                self.here("running", "main", "true")
        elif c == "deeper":
            d = a[0]
            if w is None:
                self.main_depth += d
            else:
                self.slots[w].depth += d
            self.here("deeper")
        elif c == "ret":
            if w is None:
                if self.main_depth == 0:
                    self.here("ret-ignored")
                else:
                    self.main_depth -= 1
                    self.here("ret")
            else:
                co = self.slots[w]
                if co.depth > 0:
                    co.depth -= 1
                    self.here("ret")
                else:
                    self.body_returns(w, enc_shape(2, a))
        elif c == "destroy":
            k = a[0]
            co = self.slots.get(k)
            if co is None:
                self.here("destroy", "false", E_INVALID_CO)
            elif co.status in ("suspended", "dead"):
                del self.slots[k]
                self.here("destroy", "true", "")
            else:
                # documented: may fail if it's not dead or suspended; nothing else changes
                self.here("destroy", "false", E_INVALID_OP)
        elif c == "close":
            # a <close> handle goes out of scope: same as destroy, the result is dropped
            k = a[0]
            co = self.slots.get(k)
            if co is not None and co.status in ("suspended", "dead"):
                del self.slots[k]
            self.here("close")
        elif c == "forget":
            # the only handle of an idle coroutine is dropped and the collector runs: whatever the collector does with
            # the unreachable object, nothing observable is left of it and nothing else changes
            k = a[0]
            co = self.slots.get(k)
            if co is None:
                self.here("forget", "nil")
            elif co.status in ("suspended", "dead"):
                del self.slots[k]
                self.here("forget", "ok")
            else:
                self.here("forget", "active")
        elif c == "sub":
            # d deeper frames holding n temporary coroutines only in locals: they behave like any other
            # coroutine (started, collected around, resumed round robin, finished, destroyed); nothing else changes
            d, n = a
            n = min(n, 6)
            reg = "true" if self.gc else "false"
            self.here("sub", d, n)
            for i in range(n):
                self.here("sub.r", i, 0, "true", "true", (100 * d + i) * 10 + 1, "suspended")
            self.here("sub.gc")
            for i in range(n):
                self.here("sub.st", i, "suspended", 0, reg)
            for i in range(n):
                self.here("sub.r", i, 1, "true", "true", (100 * d + i) * 10 + 2, "suspended")
            self.here("sub.gc")
            for i in range(n):
                self.here("sub.r", i, 2, "true", "true", (100 * d + i) * 10 + 3, "dead")
            for i in range(n):
                self.here("sub.end", i, "true", "")
        elif c == "gc":
            self.here("gc")
        elif c == "end":
            self.finish()
        else:
            raise ValueError("bad command %r" % (words,))

    def finish(self):
        while self.active and not self.done:
            k = self.active[-1]
            self.slots[k].depth = 0
            self.body_returns(k, enc_shape(2, [0, 0]))
        if self.done:
            return
        self.main_depth = 0
        self.line(None, 0, "end")
        for k in range(self.nslots):
            self.line(None, 0, "status", *self.status_fields(k))
        self.done = True


def run(script, gc=True, nslots=24, strict=True):
    """script: list of command strings (must end in 'end'); -> list of expected output lines"""
    r = Ref(gc, nslots, strict)
    for i, cmd in enumerate(script):
        r.step(i, cmd.split())
    if not r.done:
        r.finish()    # end of input = implicit end
    return r.out
