-- Runs the same case file as the extracted model against the real bint module
-- (lualib/nelua/utils/bn.lua -> thirdparty/bint.lua).  One result line per case.
-- Operands: bints as unsigned hex (< 2^160), Lua integers as signed hex, strings as hex bytes.
local bn = require 'nelua.utils.bn'
local SIZE = #bn.zero()               -- number of limbs
local WB = bn.bits // SIZE            -- limb width (bint's wordbits), not assumed
local LIMBHEX = WB // 4

local function limbs_of_hex(s)
  s = string.rep('0', SIZE*LIMBHEX - #s) .. s
  local x = bn.zero()
  local n = #s
  for i=1,SIZE do
    x[i] = tonumber(s:sub(n - LIMBHEX*i + 1, n - LIMBHEX*(i-1)), 16)
  end
  return x
end

local function hex_of_limbs(x)
  if x == nil then return 'nil' end
  local t = {}
  for i=1,SIZE do t[i] = string.format('%x', x[i]) end
  return table.concat(t, ',')
end

local function int_of_hex(s)  -- signed hex -> lua integer (wraps like the reader of the driver)
  local neg = s:sub(1,1) == '-'
  if neg then s = s:sub(2) end
  local v = 0
  for i=1,#s do v = (v << 4) | tonumber(s:sub(i,i), 16) end
  if neg then v = -v end
  return v
end

local function hex_of_int(v)
  if v == 0 then return '0' end
  if v == math.mininteger then return '-8000000000000000' end
  if v < 0 then return '-' .. string.format('%x', -v) end
  return string.format('%x', v)
end

local function bytes_of_hex(s)
  if s == '-' then return '' end
  return (s:gsub('..', function(h) return string.char(tonumber(h, 16)) end))
end

local function clone(x) return bn.tobint(x, true) end
local function pair(q, r) return hex_of_limbs(q) .. ' ' .. hex_of_limbs(r) end
local function str(s) if s == nil then return 'nil' end return s end

-- bint operands
local ops = {
  add = function(a,b) return hex_of_limbs(a + b) end,
  sub = function(a,b) return hex_of_limbs(a - b) end,
  mul = function(a,b) return hex_of_limbs(a * b) end,
  band = function(a,b) return hex_of_limbs(a & b) end,
  bor = function(a,b) return hex_of_limbs(a | b) end,
  bxor = function(a,b) return hex_of_limbs(a ~ b) end,
  bnot = function(a) return hex_of_limbs(~a) end,
  unm = function(a) return hex_of_limbs(-a) end,
  inc = function(a) return hex_of_limbs(clone(a):_inc()) end,
  dec = function(a) return hex_of_limbs(clone(a):_dec()) end,
  shlone = function(a) return hex_of_limbs(clone(a):_shlone()) end,
  shrone = function(a) return hex_of_limbs(clone(a):_shrone()) end,
  eq = function(a,b) return tostring(bn.eq(a,b)) end,
  ult = function(a,b) return tostring(bn.ult(a,b)) end,
  ule = function(a,b) return tostring(bn.ule(a,b)) end,
  lt = function(a,b) return tostring(a < b) end,
  le = function(a,b) return tostring(a <= b) end,
  isneg = function(a) return tostring(bn.isneg(a)) end,
  touinteger = function(a) return hex_of_int(bn.touinteger(a)) end,
  tointeger = function(a) return hex_of_int(bn.tointeger(a)) end,
  iszero = function(a) return tostring(bn.iszero(a)) end,
  isone = function(a) return tostring(bn.isone(a)) end,
  isminusone = function(a) return tostring(bn.isminusone(a)) end,
  iseven = function(a) return tostring(bn.iseven(a)) end,
  isodd = function(a) return tostring(bn.isodd(a)) end,
  mininteger = function() return hex_of_limbs(bn.mininteger()) end,
  maxinteger = function() return hex_of_limbs(bn.maxinteger()) end,
  abs = function(a) return hex_of_limbs(bn.abs(a)) end,
  max = function(a,b) return hex_of_limbs(bn.max(a,b)) end,
  min = function(a,b) return hex_of_limbs(bn.min(a,b)) end,
  udivmod = function(a,b) return pair(bn.udivmod(a,b)) end,
  udiv = function(a,b) return hex_of_limbs(bn.udiv(a,b)) end,
  umod = function(a,b) return hex_of_limbs(bn.umod(a,b)) end,
  tdivmod = function(a,b) return pair(bn.tdivmod(a,b)) end,
  idivmod = function(a,b) return pair(bn.idivmod(a,b)) end,
  idiv = function(a,b) return hex_of_limbs((a // b)) end,
  mod = function(a,b) return hex_of_limbs(a % b) end,
  ipow = function(a,b) return hex_of_limbs(bn.ipow(a,b)) end,
  upowmod = function(a,b,c) return hex_of_limbs(bn.upowmod(a,b,c)) end,
  compress = function(a)
    local r = bn.compress(a)
    if math.type(r) == 'integer' then return 'i ' .. hex_of_int(r) end
    return 'b ' .. hex_of_limbs(r)
  end,
  todecint = function(a) return str(bn.todecint(a)) end,
}
-- bint, Lua integer
local opsi = {
  shl = function(a,n) return hex_of_limbs(a << n) end,
  shr = function(a,n) return hex_of_limbs(a >> n) end,
  bwrap = function(a,n) return hex_of_limbs(bn.bwrap(a,n)) end,
  brol = function(a,n) return hex_of_limbs(bn.brol(a,n)) end,
  bror = function(a,n) return hex_of_limbs(bn.bror(a,n)) end,
  shlwords = function(a,n) return hex_of_limbs(clone(a):_shlwords(n)) end,
  shrwords = function(a,n) return hex_of_limbs(clone(a):_shrwords(n)) end,
}
local intops = {
  fromuinteger = function(i) return hex_of_limbs(bn.fromuinteger(i)) end,
  frominteger = function(i) return hex_of_limbs(bn.frominteger(i)) end,
}

-- Lua values of the mixed-argument ops: i:<int> b:<bint> s:<hexbytes> f:<m>:<e>:<hexfloat> f:inf f:-inf f:nan
local function value_of_token(t)
  local k, rest = t:sub(1,1), t:sub(3)
  if k == 'i' then return int_of_hex(rest)
  elseif k == 'b' then return limbs_of_hex(rest)
  elseif k == 's' then return bytes_of_hex(rest)
  elseif k == 'f' then
    if rest == 'inf' then return math.huge elseif rest == '-inf' then return -math.huge
    elseif rest == 'nan' then return 0.0/0.0 end
    local hexfloat = rest:match('^[^:]*:[^:]*:(.*)$')
    return assert(tonumber(hexfloat), 'bad float token') + 0.0
  end
  error('bad value token ' .. t)
end

local function num_token(v)
  if math.type(v) == 'integer' then return 'i ' .. hex_of_int(v) end
  if v ~= v then return 'flt:nan' end
  return 'flt:' .. string.format('%a', v)
end

local function bint_or(v, other)   -- a bint result as limbs, anything else as the given token
  if bn.isbint(v) then return hex_of_limbs(v) end
  return other
end

local function hex_of_bytes(s)
  if #s == 0 then return '-' end
  return (s:gsub('.', function(c) return string.format('%02x', c:byte()) end))
end

local vops = {
  tobint = function(a) return bint_or(bn.tobint(a), 'nil') end,
  new = function(a) return hex_of_limbs(bn.new(a)) end,
  madd = function(a, b) return bint_or(bn.__add(a, b), 'fallback') end,
  msub = function(a, b) return bint_or(bn.__sub(a, b), 'fallback') end,
  mmul = function(a, b) return bint_or(bn.__mul(a, b), 'fallback') end,
  mlt = function(a, b) return tostring(bn.__lt(a, b)) end,
  mle = function(a, b) return tostring(bn.__le(a, b)) end,
  meq = function(a, b) return tostring(bn.eq(a, b)) end,
  trunc = function(a) return bint_or(bn.trunc(a), 'nil') end,
  floor = function(a) return hex_of_limbs(bn.floor(a)) end,
  ceil = function(a) return hex_of_limbs(bn.ceil(a)) end,
  demotefloat = function(a) return num_token(bn.demotefloat(a)) end,
  canbeintegral = function(a) return tostring(not not bn.canbeintegral(a)) end,
}

-- aliasing stream: call f(x, y, ...), re-read the operands, observe raw identity of each result with the
-- operands, then mutate every bint result in place (_inc) and re-read the operands again
local alias_fns = {
  tobint = function(x) return bn.tobint(x) end, parse = function(x) return bn.parse(x) end,
  tobintc = function(x) return bn.tobint(x, true) end, new = function(x) return bn.new(x) end,
  abs = function(x) return bn.abs(x) end, inc = function(x) return bn.inc(x) end, dec = function(x) return bn.dec(x) end,
  max = function(x, y) return bn.max(x, y) end, min = function(x, y) return bn.min(x, y) end,
  add = function(x, y) return x + y end, sub = function(x, y) return x - y end, mul = function(x, y) return x * y end,
  bnot = function(x) return ~x end, unm = function(x) return -x end,
  band = function(x, y) return x & y end, bor = function(x, y) return x | y end, bxor = function(x, y) return x ~ y end,
  shl = function(x, y, n) return x << n end, shr = function(x, y, n) return x >> n end,
  bwrap = function(x, y, n) return bn.bwrap(x, n) end,
  brol = function(x, y, n) return bn.brol(x, n) end, bror = function(x, y, n) return bn.bror(x, n) end,
  udivmod = function(x, y) return bn.udivmod(x, y) end, idivmod = function(x, y) return bn.idivmod(x, y) end,
  tdivmod = function(x, y) return bn.tdivmod(x, y) end,
  ipow = function(x, y) return bn.ipow(x, y) end, upowmod = function(x, y, n, m) return bn.upowmod(x, y, m) end,
  tobase = function(x, y, n) return bn.tobase(x, n) end, tointeger = function(x) return bn.tointeger(x) end,
  compress = function(x) return bn.compress(x) end,
}
local function alias_run(fname, x, y, n, m)
  local res = table.pack(pcall(alias_fns[fname], x, y, n, m))
  local parts, flags, scalar = {}, {}, ''
  if not res[1] then
    scalar = nil
    res.n = 1
    res.err = res[2]
  end
  for i=2,res.n do
    local r = res[i]
    if bn.isbint(r) then
      parts[#parts+1] = hex_of_limbs(r)
      flags[#flags+1] = rawequal(r, x) and 'x' or rawequal(r, y) and 'y' or rawequal(r, m) and 'm' or '-'
    elseif math.type(r) == 'integer' then scalar = 'i ' .. hex_of_int(r)
    else scalar = tostring(r) end
  end
  local xs, ys = hex_of_limbs(x), hex_of_limbs(y)
  for i=2,res.n do if bn.isbint(res[i]) then res[i]:_inc() end end
  return res.err, string.format('R=%s%s X=%s Y=%s A=%s X2=%s Y2=%s', table.concat(parts, '/'), scalar or '', xs, ys,
    table.concat(flags), hex_of_limbs(x), hex_of_limbs(y))
end

local function flag3(s)
  if s == 't' then return true elseif s == 'f' then return false end
  return nil
end

local function classify(msg)
  msg = tostring(msg)
  if msg:find('divide by zero', 1, true) or msg:find("perform 'n//0'", 1, true) or msg:find("perform 'n%%0'", 1, true) then
    return '!err divzero'
  elseif msg:find('division overflow', 1, true) then
    return '!err overflow'
  elseif msg:find('cannot be represented by a bint', 1, true) then
    return '!err assert'
  elseif msg:find('nil value', 1, true) then
    return '!err nil'
  end
  return '!err other: ' .. msg:gsub('\n', ' ')
end

local function run(w)
  local op = w[1]
  if intops[op] then
    return intops[op](int_of_hex(w[2]))
  elseif opsi[op] then
    local n = (op == 'shlwords' or op == 'shrwords') and tonumber(w[3]) or int_of_hex(w[3])
    return opsi[op](limbs_of_hex(w[2]), n)
  elseif ops[op] then
    return ops[op](w[2] and limbs_of_hex(w[2]), w[3] and limbs_of_hex(w[3]), w[4] and limbs_of_hex(w[4]))
  elseif op:sub(-2) == '_i' and ops[op:sub(1, -3)] then
    -- mixed operands: the second one is a plain Lua integer, converted by the module itself
    return ops[op:sub(1, -3)](limbs_of_hex(w[2]), int_of_hex(w[3]))
  elseif vops[op] then
    return vops[op](value_of_token(w[2]), w[3] and value_of_token(w[3]))
  elseif op == 'tonumber' then
    return num_token(bn.tonumber(limbs_of_hex(w[2])))
  elseif op == 'fromle' then
    return hex_of_limbs(bn.fromle(bytes_of_hex(w[2])))
  elseif op == 'frombe' then
    return hex_of_limbs(bn.frombe(bytes_of_hex(w[2])))
  elseif op == 'tole' then
    return hex_of_bytes(bn.tole(limbs_of_hex(w[2]), w[3] == 't'))
  elseif op == 'tobe' then
    return hex_of_bytes(bn.tobe(limbs_of_hex(w[2]), w[3] == 't'))
  elseif op == 'todecsci' then
    return str(bn.todecsci(limbs_of_hex(w[2]), nil, w[3] == 't'))
  elseif op == 'alias' then
    local err, out = alias_run(w[2], limbs_of_hex(w[3]), limbs_of_hex(w[4]), int_of_hex(w[5]), limbs_of_hex(w[6]))
    if err then
      local c = classify(err)
      out = out:gsub('^R=', 'R=' .. c, 1)
    end
    return out
  elseif op == 'split_bin' or op == 'split_hex' then
    -- the real lpegrex patterns are upvalues of bn.from
    local want = op == 'split_bin' and 'binpatt' or 'hexpatt'
    local patt
    for i=1,20 do
      local name, val = debug.getupvalue(bn.from, i)
      if not name then break end
      if name == want then patt = val end
    end
    assert(patt, 'pattern not found')
    local neg, int, frac, exp = patt:match(bytes_of_hex(w[2]))
    if neg == nil then return 'nil' end
    local function hx(t) if #t == 0 then return '-' end return (t:gsub('.', function(c) return string.format('%02x', c:byte()) end)) end
    return string.format('%s %s %s %s', tostring(neg), hx(int), frac and hx(frac) or 'false', exp and hx(exp) or 'nil')
  elseif op == 'from_text' then
    local ok, n = pcall(bn.from, bytes_of_hex(w[2]))
    if not ok then
      -- a text the patterns refuse raises: either the 'malformed ...' assert, or (binary/hexadecimal) arithmetic on nil
      -- later on, because lpeglabel returns nil, 'fail', position on a failed match and the label passes assert(int)
      return '!err raises'
    end
    if bn.isbint(n) then return hex_of_limbs(n) end
    if math.type(n) == 'float' then return 'float' end
    return 'other:' .. tostring(n)
  elseif op == 'lua_tonumber' then   -- the VM functions Model3.v models, called directly
    local v = tonumber(bytes_of_hex(w[2]), int_of_hex(w[3]))
    if v == nil then return 'nil' end
    return hex_of_int(v)
  elseif op == 'lua_tostring' then
    return tostring(int_of_hex(w[2]))
  elseif op == 'lua_format_x' then
    return string.format('%x', int_of_hex(w[2]))
  elseif op == 'tobase' then
    return str(bn.tobase(limbs_of_hex(w[2]), int_of_hex(w[3]), flag3(w[4])))
  elseif op == 'frombase' then
    return hex_of_limbs(bn.frombase(bytes_of_hex(w[2]), int_of_hex(w[3])))
  elseif op == 'from_bin' then
    local n, base = bn.from((w[2] == 't' and '-' or '') .. '0b' .. bytes_of_hex(w[3]))
    assert(base == 2)
    return hex_of_limbs(n)
  elseif op == 'from_hex' then
    local n, base = bn.from((w[2] == 't' and '-' or '') .. '0x' .. bytes_of_hex(w[3]))
    assert(base == 16)
    return hex_of_limbs(n)
  elseif op == 'from_dec' then
    local n, base = bn.from(bytes_of_hex(w[2]))
    assert(base == 10)
    if math.type(n) == 'float' then return 'float' end  -- literal too large for a big number: read as a float
    assert(bn.isbint(n))
    return hex_of_limbs(n)
  elseif op == 'tohexint' then
    return str(bn.tohexint(limbs_of_hex(w[2]), w[3] ~= 'nil' and int_of_hex(w[3]) or nil))
  elseif op == 'tobinint' then
    return str(bn.tobinint(limbs_of_hex(w[2]), w[3] ~= 'nil' and int_of_hex(w[3]) or nil))
  end
  return '?unknown-op'
end

for line in io.lines() do
  local w = {}
  for tok in line:gmatch('%S+') do w[#w+1] = tok end
  if #w > 0 then
    local ok, res = pcall(run, w)
    if not ok then res = classify(res) end
    io.write(res, '\n')
  end
end
