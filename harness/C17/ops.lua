-- Runs the same case file as the extracted model against the real bint module
-- (lualib/nelua/utils/bn.lua -> thirdparty/bint.lua).  One result line per case.
local bn = require 'nelua.utils.bn'
local SIZE = bn.bits // 32

local function limbs_of_hex(s)
  s = string.rep('0', SIZE*8 - #s) .. s
  local x = bn.zero()
  local n = #s
  for i=1,SIZE do
    x[i] = tonumber(s:sub(n - 8*i + 1, n - 8*(i-1)), 16)
  end
  return x
end

local function hex_of_limbs(x)
  local t = {}
  for i=1,SIZE do t[i] = string.format('%x', x[i]) end
  return table.concat(t, ',')
end

local function int_of_hex(s)  -- signed hex -> lua integer (wraps like the reader of the driver)
  local neg = s:sub(1,1) == '-'
  if neg then s = s:sub(2) end
  local v = 0
  for i=1,#s do v = (v << 4) | tonumber(s:sub(i,i), 16) end
  if neg then v = -v end
  return v
end

local function hex_of_int(v)
  if v == 0 then return '0' end
  if v == math.mininteger then return '-8000000000000000' end
  if v < 0 then return '-' .. string.format('%x', -v) end
  return string.format('%x', v)
end

local function clone(x) return bn.tobint(x, true) end

local ops = {
  add = function(a,b) return hex_of_limbs(a + b) end,
  sub = function(a,b) return hex_of_limbs(a - b) end,
  mul = function(a,b) return hex_of_limbs(a * b) end,
  band = function(a,b) return hex_of_limbs(a & b) end,
  bor = function(a,b) return hex_of_limbs(a | b) end,
  bxor = function(a,b) return hex_of_limbs(a ~ b) end,
  bnot = function(a) return hex_of_limbs(~a) end,
  unm = function(a) return hex_of_limbs(-a) end,
  inc = function(a) return hex_of_limbs(clone(a):_inc()) end,
  dec = function(a) return hex_of_limbs(clone(a):_dec()) end,
  shlone = function(a) return hex_of_limbs(clone(a):_shlone()) end,
  shrone = function(a) return hex_of_limbs(clone(a):_shrone()) end,
  eq = function(a,b) return tostring(bn.eq(a,b)) end,
  ult = function(a,b) return tostring(bn.ult(a,b)) end,
  ule = function(a,b) return tostring(bn.ule(a,b)) end,
  lt = function(a,b) return tostring(a < b) end,
  le = function(a,b) return tostring(a <= b) end,
  isneg = function(a) return tostring(bn.isneg(a)) end,
  touinteger = function(a) return hex_of_int(bn.touinteger(a)) end,
  tointeger = function(a) return hex_of_int(bn.tointeger(a)) end,
}
local intops = {
  fromuinteger = function(i) return hex_of_limbs(bn.fromuinteger(i)) end,
  frominteger = function(i) return hex_of_limbs(bn.frominteger(i)) end,
}

for line in io.lines() do
  local w = {}
  for tok in line:gmatch('%S+') do w[#w+1] = tok end
  if #w > 0 then
    local op = w[1]
    local ok, res
    if intops[op] then
      ok, res = pcall(intops[op], int_of_hex(w[2]))
    elseif ops[op] then
      ok, res = pcall(ops[op], limbs_of_hex(w[2]), w[3] and limbs_of_hex(w[3]))
    else
      ok, res = true, '?unknown-op'
    end
    if not ok then res = '!err ' .. tostring(res):gsub('\n', ' ') end
    io.write(res, '\n')
  end
end
