-- C06 implementation-side probe, run by the interpreter rebuilt from REPO/src with REPO/lualib on
-- LUA_PATH.  One case per line on stdin, one result per line on stdout (same text format as
-- coq/C06/driver.ml):
--   calcline <hex text> <pos>   -> lpegrex.calcline(text, pos): "L C linestart lineend <hex line>" | "error"
--   esc <hex bytes>             -> parses  local a = "\<bytes>"  with the real grammar (aster.parse):
--                                  "ok <hex of the string value>" | "syntaxerr <label>" | "luaerr <message>"
local lpegrex = require 'nelua.thirdparty.lpegrex'
local aster = require 'nelua.aster'
local except = require 'nelua.utils.except'

local function unhex(s)
  if s == '-' then return '' end
  return (s:gsub('%x%x', function(h) return string.char(tonumber(h, 16)) end))
end
local function tohex(s)
  if #s == 0 then return '-' end
  return (s:gsub('.', function(c) return string.format('%02x', c:byte()) end))
end

local function find_string(node)
  if type(node) ~= 'table' then return nil end
  if node.tag == 'String' then return node[1] end
  for i = 1, #node do
    local v = find_string(node[i])
    if v then return v end
  end
end

for line in io.lines() do
  local cmd, a, b = line:match('^(%S+)%s+(%S+)%s*(%S*)')
  local out
  if cmd == 'calcline' then
    local ok, l, c, text, ls, le = pcall(lpegrex.calcline, unhex(a), tonumber(b))
    if ok then out = string.format('%d %d %d %d %s', l, c, ls, le, tohex(text)) else out = 'error' end
  elseif cmd == 'esc' then
    local src = 'local a = "\\' .. unhex(a) .. '"'
    local ok, res = xpcall(function() return aster.parse(src, 'esc.nelua') end, function(e)
      if except.isexception(e) then return e end
      return tostring(e)
    end)
    if ok then
      local v = find_string(res)
      out = v and ('ok ' .. tohex(v)) or 'ok-nostring'
    elseif type(res) == 'table' then
      out = 'syntaxerr ' .. tostring(res.errlabel)
    else
      out = 'luaerr ' .. tostring(res):gsub('\n.*', ''):gsub('^.-:%d+: ', '')
    end
  else
    out = '?bad-line'
  end
  io.write(out, '\n')
end
