"""Input generators for C06 (byte strings for the Nelua front end).  Pure functions of a
random.Random; used by checks/C06.py.  Every generated input carries a canonical description
(stream, parameters) so that a failure can be replayed from the description alone."""
import os

KEYWORDS = ["local", "global", "function", "end", "if", "then", "else", "elseif", "while", "do", "for", "in",
            "repeat", "until", "return", "break", "continue", "switch", "case", "defer", "goto", "nil", "nilptr",
            "true", "false", "and", "or", "not", "record", "union", "enum", "require", "fallthrough"]
OPS = ["+", "-", "*", "/", "//", "///", "%", "%%%", "^", "..", "<<", ">>", ">>>", "&", "|", "~", "==", "~=", "<=", ">=",
       "<", ">", "=", "(", ")", "{", "}", "[", "]", "::", ":", ";", ",", ".", "...", "@", "$", "#", "##", "#[", "]#",
       "#|", "|#", "<close>", "<comptime>", "[[", "]]", "[=[", "]=]", "--", "--[[", "\\", "'", '"', "?", "!", "`"]
LITS = ["0", "1", "42", "0x", "0x1p", "0xff", "0b101", "0b2", "1e", "1e+", "1e10", "1.", ".5", "1_i32", "1_f", "0x.p1",
        '"a"', "'b'", '"\\n"', '"\\x4"', '"\\u{41}"', '"\\300"', '"\\z  x"', "[[long]]", "[==[x]==]", "'\\''", '"\\', "a", "b", "_x",
        "x.y", "x:y", "f()", "\xc3\xa9", "\xff", "\x00", "\r\n", "\n", "\t", " ", "  "]


def random_bytes(rng):
    n = rng.choice([0, 1, 2, 3, 8, 40, 200, 1500])
    kind = rng.randrange(4)
    if kind == 0:
        return bytes(rng.randrange(256) for _ in range(n))
    if kind == 1:
        return bytes(rng.choice(b" \n\t()[]{}\"'\\-=+*/.,:;#@$%^&|~<>!?_aZ09\x00\xff\xc3\xa9") for _ in range(n))
    if kind == 2:
        return bytes(rng.randrange(32, 127) for _ in range(n))
    return bytes(rng.choice([10, 13, 32, 92, 34, 39, 45, 91, 93]) for _ in range(n))


def token_soup(rng):
    n = rng.choice([1, 2, 3, 5, 10, 30, 120])
    out = []
    for _ in range(n):
        r = rng.random()
        out.append(rng.choice(KEYWORDS) if r < .4 else rng.choice(OPS) if r < .75 else rng.choice(LITS))
        out.append(rng.choice([" ", " ", " ", "\n", "", "\t"]))
    return "".join(out).encode("latin-1", "replace")


def seed_files(repo):
    out = []
    for sub in ("tests", "examples", "lib"):
        root = os.path.join(repo, sub)
        for d, _, fs in os.walk(root):
            for f in sorted(fs):
                if f.endswith(".nelua"):
                    out.append(os.path.join(d, f))
    return sorted(out)


def mutate(rng, data):
    """One to three edits of a valid program."""
    b = bytearray(data)
    desc = []
    for _ in range(rng.choice([1, 1, 2, 3])):
        if not b:
            break
        op = rng.randrange(9)
        p = rng.randrange(len(b))
        if op == 0:                       # truncate
            del b[p:]
            desc.append("trunc@%d" % p)
        elif op == 1:                     # delete a range
            q = min(len(b), p + rng.choice([1, 2, 5, 40, 300]))
            del b[p:q]
            desc.append("del@%d+%d" % (p, q - p))
        elif op == 2:                     # insert random bytes
            ins = bytes(rng.randrange(256) for _ in range(rng.choice([1, 2, 4])))
            b[p:p] = ins
            desc.append("insb@%d:%s" % (p, ins.hex()))
        elif op == 3:                     # insert a token
            t = rng.choice(KEYWORDS + OPS + LITS).encode("latin-1", "replace")
            b[p:p] = b" " + t + b" "
            desc.append("inst@%d:%s" % (p, t.hex()))
        elif op == 4:                     # duplicate a range
            q = min(len(b), p + rng.choice([3, 20, 200]))
            b[p:p] = b[p:q]
            desc.append("dup@%d+%d" % (p, q - p))
        elif op == 5:                     # flip a byte
            b[p] ^= 1 << rng.randrange(8)
            desc.append("flip@%d" % p)
        elif op == 6:                     # replace by a delimiter
            c = rng.choice(b"\"'\\\n()[]{}-")
            b[p] = c
            desc.append("set@%d:%02x" % (p, c))
        elif op == 7:                     # cut the head
            del b[:p]
            desc.append("head@%d" % p)
        else:                             # swap two ranges
            q = rng.randrange(len(b))
            a, c = min(p, q), max(p, q)
            k = rng.choice([1, 5, 30])
            x, y = bytes(b[a:a + k]), bytes(b[c:c + k])
            if a + k <= c:
                b[c:c + k] = x
                b[a:a + k] = y
            desc.append("swap@%d,%d+%d" % (a, c, k))
    return bytes(b), ",".join(desc)


# nesting families: canonical description "<family>:<n>"
FAMILIES = {
    "nested-parens": lambda n: "local a = " + "(" * n + "1" + ")" * n + "\n",
    "nested-unary-minus": lambda n: "local a = " + "- " * n + "1\n",
    "nested-not": lambda n: "local a = " + "not " * n + "true\n",
    "nested-calls": lambda n: "local a = " + "f(" * n + "1" + ")" * n + "\n",
    "nested-index": lambda n: "local a = " + "x[" * n + "1" + "]" * n + "\n",
    "nested-tables": lambda n: "local a = " + "{" * n + "1" + "}" * n + "\n",
    "nested-do": lambda n: "do " * n + "local a = 1 " + "end " * n + "\n",
    "nested-if": lambda n: "if x then " * n + "local a = 1 " + "end " * n + "\n",
    "nested-while": lambda n: "while x do " * n + "break " + "end " * n + "\n",
    "nested-functions": lambda n: "local f = " + "function() return " * n + "1 " + "end " * n + "\n",
    "nested-pointer-types": lambda n: "local a: " + "*" * n + "int64\n",
    "nested-array-types": lambda n: "local a: " + "[2]" * n + "int64\n",
    "nested-pow": lambda n: "local a = " + "2^" * n + "2\n",
    "nested-concat": lambda n: "local a = " + "'a'.." * n + "'a'\n",
    "nested-preprocess-expr": lambda n: "local a = " + "#[" * n + "1" + "]#" * n + "\n",
    "nested-long-brackets": lambda n: "local a = [" + "=" * n + "[x]" + "=" * n + "]\n",
}

# long flat inputs: canonical description "<family>:<n>"
CHAINS = {
    "chain-add": lambda n: "local a = " + "1+" * n + "1\n",
    "chain-or": lambda n: "local a = " + "x or " * n + "x\n",
    "chain-cmp": lambda n: "local a = " + "1<" * n + "1\n",
    "chain-concat-left": lambda n: "local a = " + "(" + "'a'..'b'" + ")" + "..'c'" * n + "\n",
    "chain-statements": lambda n: "local a = 1\n" * n,
    "chain-call-args": lambda n: "f(" + "1," * n + "1)\n",
    "chain-table-fields": lambda n: "local t = {" + "1," * n + "}\n",
    "chain-index": lambda n: "local a = x" + ".y" * n + "\n",
    "chain-calls": lambda n: "x" + "()" * n + "\n",
    "chain-semicolons": lambda n: ";" * n + "\n",
    "chain-elseif": lambda n: "if x then " + "elseif x then " * n + "end\n",
    "chain-newlines": lambda n: "\n" * n + "local a =",
    "long-number": lambda n: "local a = " + "9" * n + "\n",
    "long-hex-number": lambda n: "local a = 0x" + "f" * n + "\n",
    "long-fraction": lambda n: "local a = 0." + "3" * n + "\n",
    "long-exponent": lambda n: "local a = 1e" + "9" * n + "\n",
    "long-binary": lambda n: "local a = 0b" + "1" * n + "\n",
    "long-name": lambda n: "local " + "a" * n + " = 1\n",
    "long-string": lambda n: "local a = '" + "s" * n + "'\n",
    "long-comment": lambda n: "--" + "c" * n + "\nlocal a = 1\n",
    "long-unclosed-string": lambda n: "local a = '" + "s" * n,
    "long-unclosed-long-string": lambda n: "local a = [[" + "s" * n,
    "long-escapes": lambda n: "local a = '" + "\\n\\x41\\065\\u{41}\\z  " * n + "'\n",
    "long-utf8-name": lambda n: "local " + "\u00e9" * n + " = 1\n",
}

ESCAPE_LITERALS = ["\\u{7FFFFFFF}", "\\u{80000000}", "\\u{FFFFFFFFFF}", "\\u{FFFFFFFFFFFFFFFF}", "\\u{10000000000000041}",
                   "\\u{0}", "\\u{}", "\\u{110000}", "\\u{D800}", "\\u{41", "\\u41}", "\\255", "\\256", "\\299", "\\300", "\\0", "\\00",
                   "\\000", "\\0000", "\\2555", "\\x", "\\x4", "\\x41", "\\xZZ", "\\xfF", "\\z", "\\z \n\t x", "\\\n", "\\\r\n", "\\\n\r",
                   "\\\r", "\\q", "\\", "\\'", '\\"', "\\\\", "\\a\\b\\f\\n\\r\\t\\v", "\\9", "\\99", "\\999", "\\1a", "\\25a"]


# ---------------------------------------------------------------------------
# structured programs with a known shape: (source bytes, expected number of top-level statements,
# payload texts that must appear quoted in the printed AST).  Used for the AST-consistency oracle:
# a statement or a token that silently disappears from the tree is a failure even when the exit status is 0.
TOKEN_KINDS = ["ident", "dqstring", "sqstring", "longstring", "longstring2", "decnumber", "hexnumber", "comment", "longcomment", "callname"]
BOUNDARY_LENGTHS = [253, 254, 255, 256, 257, 258, 509, 510, 511, 512, 513, 65533, 65534, 65535, 65536, 65537, 65538]


def make_token(kind, n, fill="a"):
    """A token of `kind` whose matched text (the part LPeg captures) is exactly n bytes long.
    Returns (statement source, counts as statement?, payload expected in the AST or None)."""
    if kind == "ident":
        name = ("v" + fill * n)[:n] if n > 0 else "v"
        return "local %s = 1" % name, True, name
    if kind == "callname":
        name = ("f" + fill * n)[:n] if n > 0 else "f"
        return "%s(2)" % name, True, name
    if kind == "dqstring":
        s = fill * n
        return 'print("%s")' % s, True, s
    if kind == "sqstring":
        s = fill * n
        return "print('%s')" % s, True, s
    if kind == "longstring":
        s = fill * n
        return "local ls = [[%s]]" % s, True, s
    if kind == "longstring2":
        s = fill * n
        return "local ls2 = [==[%s]==]" % s, True, s
    if kind == "decnumber":
        s = ("1" + "0" * n)[:n] if n > 0 else "1"
        return "local dn = %s" % s, True, s
    if kind == "hexnumber":
        s = ("0x" + "f" * n)[:max(n, 3)]
        return "local hn = %s" % s, True, s
    if kind == "comment":
        return "--" + fill * max(n - 2, 0), False, None
    if kind == "longcomment":
        return "--[[" + fill * max(n - 6, 0) + "]]", False, None
    raise KeyError(kind)


def structured_program(kind, n, where, marker):
    """Three fixed statements around one boundary token; `where` = 0/1/2 puts the token first / in the
    middle / last but one.  The final statement is always a marker print that must survive."""
    tok_src, counts, payload = make_token(kind, n)
    stmts = ["local first = 10", "print(11)", "second(12)"]
    stmts.insert(min(where, len(stmts)), tok_src)
    stmts.append('print("%s")' % marker)
    src = "\n".join(stmts) + "\n"
    expected = 4 + (1 if counts else 0)
    payloads = [marker] + ([payload] if payload is not None else [])
    return src.encode("latin-1"), expected, payloads


# ---------------------------------------------------------------------------
# whole-compiler termination stream: short, semantically odd programs run through `nelua --analyze`
# (parser + preprocessor + analyzer fixpoints) under a wall-clock bound.  The analyzer iterates scopes
# until nothing more resolves; these programs aim at its delay / retry logic.
SEMANTIC_SEEDS = [
    # use of globals (typed / inferred, before / after their declaration) inside polymorphic functions
    "local function f(a: auto) return a + G end\nprint(f(1))\nglobal G = 2\n",
    "global G = 2\nlocal function f(a: auto) return a + G end\nprint(f(1))\n",
    "local function f(a: auto) return a + G end\nprint(f(1))\nglobal G: integer = 2\n",
    "global G: integer = 2\nlocal function f(a: auto) return a + G end\nprint(f(1))\n",
    "local function f(a: auto) return a + G end\nprint(f(1))\nlocal G = 2\n",
    "local G = 2\nlocal function f(a: auto) return a + G end\nprint(f(1))\n",
    "global G = 2\nglobal function f(a: auto) return a + G end\nprint(f(1), f(1.5))\n",
    "global G = 2\nlocal function f(a: auto) G = G + 1 return a end\nprint(f(1))\n",
    "global G\nlocal function f(a: auto) return a + G end\nprint(f(1))\n",
    "local function f(a: auto) return a + G end\nglobal G = f(1)\nprint(G)\n",
    "global G = 1\nlocal function f(a: auto) return g(a) + G end\nlocal function g(a: auto) return a end\nprint(f(1))\n",
    "global T = @record{x: integer}\nlocal function f(a: auto) local t: T = {x=a} return t.x end\nprint(f(1))\n",
    # mutually recursive polymorphic / auto functions
    "local f, g\nfunction f(a: auto) if a > 0 then return g(a - 1) end return 0 end\nfunction g(a: auto) return f(a) end\nprint(f(3))\n",
    "local f, g\nfunction f(a: auto) return a end\nfunction g(a: auto) return f(a) end\nprint(g(3))\n",
    "local function f(a: auto): integer if a > 0 then return f(a - 1) end return 0 end\nprint(f(3))\n",
    "local function f(a: auto) if a > 0 then return f(a - 1) end return 0 end\nprint(f(3))\n",
    "local function f(a: auto) return f(a) end\nprint(f(1))\n",
    "local function f(a: auto, b: auto) return f(b, a) end\nprint(f(1, 2.0))\n",
    "local function f(a: auto) return a end\nlocal function g(a: auto) return f(g) end\nprint(g(1))\n",
    # self-referential / recursive types
    "local R = @record{next: *R}\nlocal r: R\nprint(r.next)\n",
    "local R <forwarddecl> = @record{}\nR = @record{next: *R, v: integer}\nlocal r: R\nprint(r.v)\n",
    "local R = @record{self: R}\nlocal r: R\n",
    "local A = @record{b: B}\nlocal B = @record{a: A}\nlocal a: A\n",
    "local A <forwarddecl> = @record{}\nlocal B = @record{a: A}\nA = @record{b: B}\nlocal a: A\n",
    "local U = @union{u: U}\n",
    "local T = @[2]T\n",
    "local F = @function(F): F\nlocal f: F\n",
    "local R = @record{f: function(R): R}\nlocal r: R\nprint(r.f)\n",
    # concepts, overloads, generics that refer to themselves
    "local C = #[concept(function(x) return C end)]#\nlocal function f(a: C) return a end\nprint(f(1))\n",
    "local C = #[concept(function(x) return x.type.is_integral end)]#\nlocal function f(a: C) return f(a) end\nprint(f(1))\n",
    "local function f(a: overload(integer, string)) return f(a) end\nprint(f(1))\n",
    "## local function gen(T) return T end\nlocal G = #[generic(function(T) return G end)]#\nlocal x: G(integer)\n",
    "local G <generic> = #[generic(function(T) return types.ArrayType(T, 2) end)]#\nlocal x: G(G(integer))\nprint(#x)\n",
    # preprocessor / compile-time loops that depend on later declarations
    "## for i=1,3 do\nlocal #|'v'..i|# = #[i]#\n## end\nprint(v1 + v2 + v3)\n",
    "local x = y\nlocal y = x\n",
    "local x: auto = x\n",
    "local function f() return g() end\nlocal function g() return f() end\nprint(f())\n",
    "global function f() return f() end\nprint(f())\n",
    "local a = (function() return a end)()\n",
    "goto l\nlocal x = 1\n::l::\nprint(x)\n",
    "global G = 2\nlocal function f(a: auto) return function() return a + G end end\nprint(f(1)())\n",
    "global G = 2\nlocal function f(a: auto) defer print(G) end return a end\nprint(f(1))\n",
    "global G = 2\nlocal R = @record{}\nfunction R.m(a: auto) return a + G end\nprint(R.m(1))\n",
    "global G = 2\nlocal R = @record{}\nfunction R:m(a: auto) return a + G end\nlocal r: R\nprint(r:m(1))\n",
]


# further shapes of the same defect as the designated witnesses (inferred-type global used in a polymorphic function):
# run only once scope.lua carries the repair, so that an open defect is replayed by a handful of exact witnesses only
SEMANTIC_SEEDS_POLY_GLOBAL = [
    "global G = 'x'\nlocal function f(a: auto) return G .. a end\nprint(f('y'))\n",
    "global G = 1\nlocal function g(a: auto) return a + G end\nlocal function f(a: auto) return g(a) + G end\nprint(f(1))\n",
    "global A, B = 1, 2\nlocal function f(x: auto) return x + A + B end\nprint(f(1))\n",
    "global t = (@record{x: integer}){x=1}\nlocal function f(a: auto) return a + t.x end\nprint(f(1))\n",
    "local function f(a: auto) ## if a.type.is_integral then\n return a + G ## else\n return 0 ## end\nend\nprint(f(1))\nglobal G = 2\n",
    "global G = 2\nlocal function f(a: auto) ## if a.type.is_integral then\n return a + G ## else\n return 0 ## end\nend\nprint(f(1))\n",
]


# programs that must be rejected with a located diagnostic and exit status 1 (the property fixes the form of the
# diagnostic, not its wording: the text is empty so that a reworded or earlier diagnostic is not an alarm)
SEMANTIC_MUST_FAIL = {
    "local f, g\nfunction f(a: auto) if a > 0 then return g(a - 1) end return 0 end\nfunction g(a: auto) return f(a) end\nprint(f(3))\n": "",
    "local f, g\nfunction f(a: auto) return a end\nfunction g(a: auto) return f(a) end\nprint(g(3))\n": "",
}


def semantic_program(rng):
    """A random arrangement of a few declaration / use statements: the ORDER is what is being fuzzed."""
    names = ["G", "H"]
    decls = []
    for n in names[: rng.choice([1, 1, 2])]:
        kind = rng.choice(["global %s = %d", "global %s: integer = %d", "local %s = %d", "global %s = %d.5", "global %s: auto = %d"])
        decls.append(kind % (n, rng.randrange(1, 9)))
    body = " + ".join(["a"] + [d.split()[1].rstrip(":") for d in decls])
    fkind = rng.choice(["local function f(a: auto) return %s end", "global function f(a: auto) return %s end",
                        "local function f(a: auto, b: auto) return %s + b end", "local function f(a: integer) return %s end",
                        "local function f(a: auto) local r = %s return r end"])
    fdef = fkind % body
    call = "print(f(1, 2))" if "b: auto" in fdef else rng.choice(["print(f(1))", "local r = f(1)\nprint(r)", "print(f(1), f(2.5))" if "integer)" not in fdef else "print(f(1))"])
    stmts = decls + [fdef, call]
    rng.shuffle(stmts)
    return "\n".join(stmts) + "\n"
