-- Dumps what the compiler itself says about its primitive integral types (run under the
-- interpreter rebuilt from /repo/src with /repo/lualib on the path):
--   T <name> <codename> <bitsize> <signed 0|1> <min> <max>
--   R <dst> <src> <0|1>        dst:is_type_inrange(src)   (add_typed_val's "no check needed")
--   L signed|unsigned <names of promote_*_types ladder>
--   O <ltype> <rtype> <result type of ltype /// rtype on non-constant operands>   (mixed signedness pairs)
local typedefs = require 'nelua.typedefs'
local primtypes = typedefs.primtypes
local names = {}
for i = 1, select('#', ...) do names[#names+1] = select(i, ...) end
if #names == 0 then
  names = {'int8','int16','int32','int64','isize','uint8','uint16','uint32','uint64','usize',
           'cchar','cschar','cshort','cint','clong','clonglong','cptrdiff',
           'cuchar','cushort','cuint','culong','culonglong','csize','integer','uinteger','byte'}
end
for _, n in ipairs(names) do
  local t = primtypes[n]
  print('T', n, t.codename, t.bitsize, t.is_signed and 1 or 0, tostring(t.min), tostring(t.max))
end
for _, d in ipairs(names) do
  for _, s in ipairs(names) do
    print('R', d, s, primtypes[d]:is_type_inrange(primtypes[s]) and 1 or 0)
  end
end
local function ladder(l) local r = {} for i, t in ipairs(l) do r[i] = t.name end return table.concat(r, ' ') end
print('L', 'signed', ladder(typedefs.promote_signed_types))
print('L', 'unsigned', ladder(typedefs.promote_unsigned_types))
print('N', 'number', primtypes.number.name, 'integer', primtypes.integer.name, 'uinteger', primtypes.uinteger.name)
local Attr = require 'nelua.attr'
for _, l in ipairs(names) do
  for _, r in ipairs(names) do
    local lt, rt = primtypes[l], primtypes[r]
    if lt.is_signed ~= rt.is_signed then
      local t = lt:binary_operator('tdiv', rt, Attr{type = lt}, Attr{type = rt})
      print('O', l, r, t and t.name or '?')
    end
  end
end
