"""Translator: C helper functions emitted by the Nelua code generator -> Base.CInt mini-C terms.

Used by checks/C04.py and checks/C02.py (gen step).  Plain text processing, no evaluation:
  * find_functions(ctext, prefix)  -> {name: (rettype, [(ptype, pname)], body_text)}
  * parse_function(...)            -> Fun(params=[ity], ret=ity, body=stmt)   (python tuples)
  * coq(term)                      -> Gallina text of the term (cexpr / cstmt / cfun of CInt.v)
C typing of integer literals follows C11 6.4.4.1 with int = 32, long = long long = 64 bits.
A function using anything outside the fragment raises Unsupported (the caller decides whether
that is fatal).  NELUA_LIKELY/NELUA_UNLIKELY(e) are read as e (they expand to
__builtin_expect(e, c), whose value is e).
"""
import re


class Unsupported(Exception):
    pass


# ity = (bits, signed)
CTYPES = {
    "int8_t": (8, True), "int16_t": (16, True), "int32_t": (32, True), "int64_t": (64, True),
    "uint8_t": (8, False), "uint16_t": (16, False), "uint32_t": (32, False), "uint64_t": (64, False),
    "intptr_t": (64, True), "uintptr_t": (64, False), "ptrdiff_t": (64, True), "size_t": (64, False),
    "char": (8, True), "signed char": (8, True), "unsigned char": (8, False),
    "short": (16, True), "unsigned short": (16, False),
    "int": (32, True), "unsigned int": (32, False), "unsigned": (32, False),
    "long": (64, True), "unsigned long": (64, False),
    "long long": (64, True), "unsigned long long": (64, False),
    "bool": (8, False),          # only 0/1 ever flow through it in the helpers
    "void*": (64, False),        # pointers are modelled by their address
}

PANIC_CODES = [
    (re.compile(r"^array index: position out of bounds$"), 1),
    (re.compile(r"^narrow casting from (\w+) to (\w+) failed$"), 2),
    (re.compile(r"^attempt to dereference a null pointer$"), 3),
    (re.compile(r"^division by zero$"), 4),
]


def set_pointer_bits(bits):
    for k in ("intptr_t", "ptrdiff_t"):
        CTYPES[k] = (bits, True)
    for k in ("uintptr_t", "size_t", "void*"):
        CTYPES[k] = (bits, False)


TOKEN_RE = re.compile(r"""
    \s+
  | (?P<num>0[xX][0-9a-fA-F]+[uUlL]*|\d+[uUlL]*)
  | (?P<id>[A-Za-z_]\w*)
  | (?P<str>"(?:[^"\\]|\\.)*")
  | (?P<op>\|\||&&|<<|>>|<=|>=|==|!=|[-+*/%&|^~!<>?:(){};,=])
""", re.X)


def tokenize(text):
    toks = []
    pos = 0
    while pos < len(text):
        m = TOKEN_RE.match(text, pos)
        if not m:
            raise Unsupported("cannot tokenize at: %r" % text[pos:pos + 30])
        pos = m.end()
        if m.lastgroup:
            toks.append((m.lastgroup, m.group(m.lastgroup)))
    return toks


def literal(tok):
    """C11 6.4.4.1: type of an integer constant (int 32, long/long long 64)."""
    m = re.match(r"^(0[xX][0-9a-fA-F]+|\d+)([uUlL]*)$", tok)
    body, suf = m.group(1), m.group(2).lower()
    hexa = body.lower().startswith("0x")
    octal = (not hexa) and len(body) > 1 and body.startswith("0")
    v = int(body, 16) if hexa else (int(body, 8) if octal else int(body))
    uns = "u" in suf
    longs = suf.count("l")
    I32, U32, I64, U64 = (32, True), (32, False), (64, True), (64, False)
    if uns:
        cands = [U32, U64] if longs == 0 else [U64]
    elif hexa or octal:
        cands = [I32, U32, I64, U64] if longs == 0 else [I64, U64]
    else:
        cands = [I32, I64] if longs == 0 else [I64]
    for (b, s) in cands:
        lo, hi = (-(1 << (b - 1)), (1 << (b - 1)) - 1) if s else (0, (1 << b) - 1)
        if lo <= v <= hi:
            return ("lit", (b, s), v)
    raise Unsupported("integer constant %s has no type" % tok)


BINPREC = [
    ["||"], ["&&"], ["|"], ["^"], ["&"], ["==", "!="], ["<", ">", "<=", ">="], ["<<", ">>"],
    ["+", "-"], ["*", "/", "%"],
]
BINNAME = {"+": "Oadd", "-": "Osub", "*": "Omul", "/": "Odiv", "%": "Omod", "&": "Oand", "|": "Oor",
           "^": "Oxor", "<<": "Oshl", ">>": "Oshr", "<": "Olt", "<=": "Ole", ">": "Ogt", ">=": "Oge",
           "==": "Oeq", "!=": "One"}


class Parser:
    def __init__(self, toks, varnames):
        self.t = toks
        self.i = 0
        self.vars = list(varnames)

    def peek(self, k=0):
        return self.t[self.i + k] if self.i + k < len(self.t) else ("eof", "")

    def next(self):
        tok = self.peek()
        self.i += 1
        return tok

    def accept(self, val):
        if self.peek()[1] == val and self.peek()[0] in ("op", "id"):
            self.i += 1
            return True
        return False

    def expect(self, val):
        if not self.accept(val):
            raise Unsupported("expected %r, got %r" % (val, self.peek()))

    # --- types
    def try_type(self):
        """Parse a type name at the current position (possibly multi-word, possibly with '*')."""
        save = self.i
        words = []
        while self.peek()[0] == "id" and self.peek()[1] in ("unsigned", "signed", "long", "short", "int", "char", "const"):
            w = self.next()[1]
            if w != "const":
                words.append(w)
        if not words and self.peek()[0] == "id" and (self.peek()[1] in CTYPES or self.peek()[1] == "void"):
            words.append(self.next()[1])
        if not words:
            self.i = save
            return None
        name = " ".join(words)
        if name == "signed":
            name = "int"
        if self.peek() == ("op", "*"):
            self.next()
            name = "void*" if True else name
        if name == "void":
            self.i = save
            return None
        if name not in CTYPES:
            self.i = save
            return None
        return CTYPES[name]

    # --- expressions
    def expr(self):
        return self.ternary()

    def ternary(self):
        c = self.binary(0)
        if self.accept("?"):
            a = self.expr()
            self.expect(":")
            b = self.ternary()
            return ("cond", c, a, b)
        return c

    def binary(self, lvl):
        if lvl >= len(BINPREC):
            return self.unary()
        left = self.binary(lvl + 1)
        while self.peek()[0] == "op" and self.peek()[1] in BINPREC[lvl]:
            op = self.next()[1]
            right = self.binary(lvl + 1)
            if op == "||":
                left = ("lor", left, right)
            elif op == "&&":
                left = ("land", left, right)
            else:
                left = ("bin", BINNAME[op], left, right)
        return left

    def unary(self):
        k, v = self.peek()
        if k == "op" and v == "-":
            self.next()
            return ("un", "Oneg", self.unary())
        if k == "op" and v == "~":
            self.next()
            return ("un", "Onot", self.unary())
        if k == "op" and v == "!":
            self.next()
            return ("un", "Olnot", self.unary())
        if k == "op" and v == "+":
            self.next()
            return self.unary()
        if k == "op" and v == "(":
            save = self.i
            self.next()
            ty = self.try_type()
            if ty is not None and self.accept(")"):
                return ("cast", ty, self.unary())
            self.i = save
        return self.primary()

    def primary(self):
        k, v = self.next()
        if k == "num":
            return literal(v)
        if k == "op" and v == "(":
            e = self.expr()
            self.expect(")")
            return e
        if k == "id":
            if v in ("NELUA_UNLIKELY", "NELUA_LIKELY"):
                self.expect("(")
                e = self.expr()
                self.expect(")")
                return e
            if v == "NULL":
                return ("lit", CTYPES["void*"], 0)
            if v in ("true", "false"):
                return ("lit", (32, True), 1 if v == "true" else 0)
            if v in self.vars:
                return ("var", len(self.vars) - 1 - self.vars[::-1].index(v))
            raise Unsupported("unknown identifier %s" % v)
        raise Unsupported("unexpected token %r" % (v,))

    # --- statements
    def block_or_stmt(self):
        if self.accept("{"):
            nvars = len(self.vars)
            s = self.stmts_until("}")
            self.expect("}")
            del self.vars[nvars:]
            return s
        nvars = len(self.vars)
        s = self.stmt(single=True)
        del self.vars[nvars:]
        return s

    def stmts_until(self, closer):
        """Sequence of statements; a declaration scopes over the rest."""
        if self.peek()[1] == closer or self.peek()[0] == "eof":
            return ("skip",)
        first = self.stmt(single=False)
        if first[0] == "decl_open":
            rest = self.stmts_until(closer)
            return ("decl", first[1], first[2], rest)
        if self.peek()[1] == closer or self.peek()[0] == "eof":
            return first
        rest = self.stmts_until(closer)
        return ("seq", first, rest)

    def stmt(self, single):
        k, v = self.peek()
        if k == "id" and v == "if":
            self.next()
            self.expect("(")
            c = self.expr()
            self.expect(")")
            th = self.block_or_stmt()
            el = ("skip",)
            if self.peek() == ("id", "else"):
                self.next()
                el = self.block_or_stmt()
            return ("if", c, th, el)
        if k == "id" and v == "return":
            self.next()
            e = self.expr()
            self.expect(";")
            return ("ret", e)
        if k == "id" and v == "nelua_panic_cstring":
            self.next()
            self.expect("(")
            kk, s = self.next()
            if kk != "str":
                raise Unsupported("panic with non literal message")
            self.expect(")")
            self.expect(";")
            msg = s[1:-1]
            code = 0
            for rx, c in PANIC_CODES:
                if rx.match(msg):
                    code = c
            return ("panic", code, msg)
        if k == "op" and v == "{":
            return self.block_or_stmt()
        ty = self.try_type()
        if ty is not None and self.peek()[0] == "id" and self.peek(1) == ("op", "="):
            if single:
                raise Unsupported("declaration as a single statement")
            name = self.next()[1]
            self.next()
            e = self.expr()
            self.expect(";")
            self.vars.append(name)
            return ("decl_open", ty, e)
        raise Unsupported("unsupported statement at %r" % (self.t[self.i:self.i + 6],))


FUNC_RE = re.compile(r"^(?P<ret>[A-Za-z_][\w \*]*?)\s*\b(?P<name>nelua_\w+)\((?P<params>[^)]*)\)\s*\{\s*$", re.M)


def find_functions(ctext, prefixes):
    """Definitions (not prototypes) of functions whose name starts with one of prefixes."""
    out = {}
    for m in FUNC_RE.finditer(ctext):
        name = m.group("name")
        if not any(name.startswith(p) for p in prefixes):
            continue
        # brace matching
        i = m.end()
        depth = 1
        while depth > 0 and i < len(ctext):
            ch = ctext[i]
            if ch == "{":
                depth += 1
            elif ch == "}":
                depth -= 1
            elif ch == '"':
                i += 1
                while ctext[i] != '"':
                    i += 2 if ctext[i] == "\\" else 1
            i += 1
        body = ctext[m.end():i - 1]
        params = []
        ptxt = m.group("params").strip()
        if ptxt and ptxt != "void":
            for p in ptxt.split(","):
                p = p.strip()
                mm = re.match(r"^(.*?)(\w+)$", p)
                params.append((mm.group(1).strip().replace(" *", "*"), mm.group(2)))
        out[name] = (m.group("ret").strip(), params, body)
    return out


def ctype_of(txt):
    txt = re.sub(r"\bconst\b", "", txt).strip()
    txt = txt.replace(" *", "*")
    if txt.endswith("*"):
        txt = "void*"
    if txt not in CTYPES:
        raise Unsupported("type %s" % txt)
    return CTYPES[txt]


def parse_function(ret, params, body):
    ptys = [ctype_of(t) for t, _ in params]
    p = Parser(tokenize(body), [n for _, n in params])
    s = p.stmts_until("}")
    if p.peek()[0] != "eof":
        raise Unsupported("trailing tokens %r" % (p.t[p.i:p.i + 5],))
    return ("fun", ptys, ctype_of(ret), s)


def parse_expr(text, varnames):
    p = Parser(tokenize(text), varnames)
    e = p.expr()
    if p.peek()[0] != "eof":
        raise Unsupported("trailing tokens in expression")
    return e


# ------------------------------------------------------------------ Gallina printing

def coq_ity(t):
    b, s = t
    if b in (8, 16, 32, 64):
        return ("I%d" if s else "U%d") % b
    return "(mkity %d %s)" % (b, "true" if s else "false")


def coq_z(v):
    return "(%d)" % v if v < 0 else "%d" % v


def coq(t):
    k = t[0]
    if k == "var":
        return "(Evar %d)" % t[1]
    if k == "lit":
        return "(Elit %s %s)" % (coq_ity(t[1]), coq_z(t[2]))
    if k == "cast":
        return "(Ecast %s %s)" % (coq_ity(t[1]), coq(t[2]))
    if k == "un":
        return "(Eun %s %s)" % (t[1], coq(t[2]))
    if k == "bin":
        return "(Ebin %s %s %s)" % (t[1], coq(t[2]), coq(t[3]))
    if k == "land":
        return "(Eland %s %s)" % (coq(t[1]), coq(t[2]))
    if k == "lor":
        return "(Elor %s %s)" % (coq(t[1]), coq(t[2]))
    if k == "cond":
        return "(Econd %s %s %s)" % (coq(t[1]), coq(t[2]), coq(t[3]))
    if k == "ret":
        return "(Sret %s)" % coq(t[1])
    if k == "panic":
        return "(Spanic %d)" % t[1]
    if k == "skip":
        return "Sskip"
    if k == "if":
        return "(Sif %s %s %s)" % (coq(t[1]), coq(t[2]), coq(t[3]))
    if k == "seq":
        return "(Sseq %s %s)" % (coq(t[1]), coq(t[2]))
    if k == "decl":
        return "(Sdecl %s %s %s)" % (coq_ity(t[1]), coq(t[2]), coq(t[3]))
    if k == "fun":
        return "(mkcfun [%s] %s %s)" % ("; ".join(coq_ity(x) for x in t[1]), coq_ity(t[2]), coq(t[3]))
    raise KeyError(k)
