-- Lua module required from a preprocessor block (corpus/C07/progs/pp_traceback.nelua)
local M = {}
function M.boom() local t = nil; return t.x end
return M
