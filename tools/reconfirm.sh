cd /verif
n=$1; id=${n%%-*}; x=${n##*-}
rm -rf /tmp/reconfirm-$n; mkdir -p /tmp/reconfirm-$n/seeded; cp -r /verif/seeded/$n /tmp/reconfirm-$n/seeded/$x
python3 - <<PY
import json
p='/tmp/reconfirm-$n/seeded/$x/meta.json'; m=json.load(open(p)); m.pop('confirmed_by_coordinator',None); json.dump(m,open(p,'w'),indent=1)
PY
python3 tools/seedconfirm.py /tmp/reconfirm-$n/seeded/$x $n > .cache/seedlogs/re-$n.log 2>&1
rm -rf /tmp/reconfirm-$n
