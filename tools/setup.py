#!/usr/bin/env python3
"""MANIFEST.setup_cmd: build everything from files on disk (offline): the interpreter from
/repo/src, the regenerated Gen*.v, every Coq sub-project (full .vo build), extracted drivers."""
import importlib
import os
import sys
import time
from concurrent.futures import ThreadPoolExecutor

sys.path.insert(0, os.path.dirname(os.path.abspath(__file__)))
import vlib  # noqa: E402
sys.path.insert(0, vlib.VERIF)


def one(pid):
    t = time.time()
    try:
        plugin = importlib.import_module("checks." + pid)
        ctx = vlib.Ctx(pid, "quick", 1)
        if hasattr(plugin, "gen"):
            plugin.gen(ctx)
        ok, log = vlib.coq_build(pid, jobs=4)
        if not ok:
            return pid, False, log[-1500:], time.time() - t
        if os.path.exists(os.path.join(vlib.coq_dir(pid), "driver.ml")):
            vlib.ocaml_build(pid)
        if hasattr(plugin, "setup"):
            plugin.setup(ctx)
        return pid, True, "", time.time() - t
    except Exception as ex:  # noqa
        return pid, False, repr(ex)[-1500:], time.time() - t


def main():
    vlib.ensure_interp()
    ok, log = vlib.coq_build("Base")
    if not ok:
        print(log[-3000:])
        return 1
    pids = sorted(f[:-3] for f in os.listdir(os.path.join(vlib.VERIF, "checks")) if f.startswith("C") and f.endswith(".py"))
    bad = 0
    with ThreadPoolExecutor(max_workers=6) as ex:
        for pid, good, msg, dt in ex.map(one, pids):
            print("%s %s %.1fs %s" % (pid, "ok" if good else "FAILED", dt, msg))
            bad += 0 if good else 1
    # a failed sub-project is reported by its own check; setup itself only fails on Base/interp
    return 0


if __name__ == "__main__":
    sys.exit(main())
