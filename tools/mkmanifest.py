#!/usr/bin/env python3
"""Assemble MANIFEST.json from the plugins in checks/.  A property is claimed iff its plugin
exists and tools/claims.json has an entry for it (added once its quick check passes on the
unchanged tree; entry keys text/note/technique override the plugin's MANIFEST_ENTRY) — everything else is listed under not_applicable with the reason given in
NOT_CLAIMED below or the plugin's NOT_APPLICABLE string."""
import importlib
import json
import os
import sys

sys.path.insert(0, os.path.dirname(os.path.abspath(__file__)))
import vlib  # noqa
sys.path.insert(0, vlib.VERIF)

DEFAULT_NOTE = ("trusted: Coq 8.16.1 kernel; the hand-written model (tied to /repo by regenerated parameters and by differential "
                "correspondence, which is testing, not proof); extraction with ExtrOcamlBasic; OCaml/Lua/Nelua/C harness glue; see evidence trusted_base")


def main():
    props = [json.loads(l) for l in open(os.path.join(vlib.VERIF, "properties.jsonl"))]
    checks, na, served = [], [], []
    na_reasons = json.load(open(os.path.join(vlib.VERIF, "tools", "not_claimed.json"))) if os.path.exists(os.path.join(vlib.VERIF, "tools", "not_claimed.json")) else {}
    claims = json.load(open(os.path.join(vlib.VERIF, "tools", "claims.json")))
    for p in props:
        pid = p["id"]
        plugin = None
        if os.path.exists(os.path.join(vlib.VERIF, "checks", pid + ".py")):
            try:
                plugin = importlib.import_module("checks." + pid)
            except Exception as ex:
                print("cannot import", pid, ex)
        claim = claims.get(pid)
        if plugin is not None and claim is not None:
            me = dict(getattr(plugin, "MANIFEST_ENTRY", {}))
            me.update(claim)
            served.append(pid)
            checks.append({
                "property_id": pid,
                "quick_cmd": "python3 tools/check.py %s quick" % pid,
                "thorough_cmd": "python3 tools/check.py %s thorough" % pid,
                "evidence_file": "/verif/evidence/%s.json" % pid,
                "replay_cmd_template": "cat {path}",
                "engine": "coq-proof+correspondence",
                "level_claimed": {"category": "proof",
                                  "text": me.get("text", "Coq theorems over an executable model of the anchored code, tied to /repo by regenerated parameters and model/implementation correspondence"),
                                  "design_ref": "DESIGN.md section 3, %s" % pid},
                "level_note": me.get("note", DEFAULT_NOTE),
                "technique": me.get("technique", "machine-checked proof in Coq over an executable model + extracted-model/implementation correspondence"),
            })
        else:
            reason = na_reasons.get(pid) or (getattr(plugin, "NOT_APPLICABLE", None) if plugin else None)
            na.append({"property_id": pid, "reason": reason or "machinery for this property is not finished in /verif yet (planned in DESIGN.md section 3); not claimed"})
    m = {
        "version": 1,
        "setup_cmd": "python3 tools/setup.py",
        "hooks": {"guard": "NELUA_LANG_VERIF",
                  "enable": "no hooks are needed: checks build the interpreter from /repo/src with their own flags and drive the real compiler/libraries from outside",
                  "baseline_off_cmd": "cd /repo && make test", "source_commits": [], "add_only": True},
        "engines": [{"name": "coq-proof+correspondence", "path": "tools/check.py", "serves_properties": served,
                     "kind_free_text": "Coq 8.16.1 theorems over hand-written executable Gallina models (coq/<ID>), parameters regenerated from /repo each run (Gen.v), model extracted to OCaml and run against the implementation on the same inputs; property oracle evaluated on the implementation's outputs"}],
        "checks": checks,
        "notes": "one Coq sub-project per property; known findings in known_findings/<ID>.json; seeded changes used for validation in seeded/",
        "not_applicable": na,
    }
    json.dump(m, open(os.path.join(vlib.VERIF, "MANIFEST.json"), "w"), indent=1)
    print("claimed:", served)


if __name__ == "__main__":
    main()
