#!/usr/bin/env python3
"""Entry point of every check:  python3 tools/check.py <ID> quick|thorough [--replay <file>]

Pipeline (DESIGN.md 1.2):
 1. plugin.gen(ctx)            regenerate coq/<ID>/Gen*.v from /repo's working tree
 2. coq_build                  coq/Base then coq/<ID>, full .vo build (make -k)
 3. Properties gate            coqc Properties.v; every theorem followed by Print Assumptions;
                               assumptions within the plugin's allow-list; grep gate
 4. extraction + driver build  (coq/<ID>/Extract.v -> model.ml, driver.ml)
 5. plugin.correspond(ctx)     model vs implementation on the same inputs + property oracle;
                               records violations through ctx.violation(key, ...)
 6. a broken proof with no failing input found -> VIOLATION ... no-failing-input-found
 7. evidence/<ID>.json
"""
import importlib
import json
import os
import re
import sys
import time
import traceback

sys.path.insert(0, os.path.dirname(os.path.abspath(__file__)))
import vlib  # noqa: E402

sys.path.insert(0, vlib.VERIF)


def main():
    if len(sys.argv) < 3:
        print("usage: check.py <ID> quick|thorough")
        return 2
    pid, tier = sys.argv[1], sys.argv[2]
    tier = os.environ.get("VERIF_TIER", tier) if tier not in ("quick", "thorough") else tier
    seed = int(os.environ.get("VERIF_SEED", "1") or "1")
    ctx = vlib.Ctx(pid, tier, seed)
    plugin = importlib.import_module("checks." + pid)
    allowed = set(getattr(plugin, "ALLOWED_AXIOMS", []))
    trusted = list(getattr(plugin, "TRUSTED_BASE", []))
    assumptions = list(getattr(plugin, "ASSUMPTIONS", []))
    coverage = {}
    proof_problems = []   # strings naming what no longer checks

    # 1. regenerate parameters from the source
    try:
        scraped = plugin.gen(ctx) if hasattr(plugin, "gen") else {}
        coverage["scraped_from_repo"] = scraped
    except Exception as ex:  # a scrape that finds nothing is a hard error of the tie
        scraped = {}
        proof_problems.append("translator gen/%s failed: %s" % (pid, ex))
        ctx.note("gen failed: %s" % traceback.format_exc()[-1500:])

    # 2. build
    t = time.time()
    ok, blog = vlib.coq_build(pid)
    coverage["coq_build_s"] = round(time.time() - t, 1)
    if not ok:
        failed = sorted(set(re.findall(r'File "\./([A-Za-z0-9_]+\.v)", line (\d+)', blog)))
        msgs = re.findall(r'(File "\./[A-Za-z0-9_]+\.v", line \d+, characters [0-9-]+:\nError:[^\n]*(?:\n[^\n]+){0,6})', blog)
        timed = re.findall(r"\[Makefile\.coq:\d+: ([A-Za-z0-9_]+)\.vo\] Error 124", blog)
        if timed:
            proof_problems.append("coqc exceeded the per-file time limit on: %s" % ", ".join(t + ".v" for t in timed))
        proof_problems.append("coq build failed in: %s" % ", ".join("%s:%s" % f for f in failed))
        coverage["coq_build_errors"] = [m[:600] for m in msgs[:5]] or [blog[-1500:]]

    # 3. properties gate
    props = vlib.coq_properties(pid) if os.path.exists(os.path.join(vlib.coq_dir(pid), "Properties.v")) else {"ok": False, "log": "no Properties.v", "theorems": [], "missing_print": []}
    obligations = 0
    discharged = 0
    thm_report = []
    # optional per-theorem classification supplied by the plugin: main | corollary | refutation | tripwire |
    # definitional | inactive (premise false for the scraped policy); reported so that the count is not read as more than it is
    classes = dict(getattr(plugin, "THEOREM_CLASSES", {}))
    if props["ok"]:
        for th in props["theorems"]:
            obligations += 1
            extra = [a for a in th["assumptions"] if a not in allowed]
            if extra:
                proof_problems.append("theorem %s depends on non-allowed axioms %s" % (th["name"], extra))
            else:
                discharged += 1
            thm_report.append({"theorem": th["name"], "class": classes.get(th["name"], "unclassified"),
                               "assumptions": th["assumptions"] or "Closed under the global context"})
        for nm in props["missing_print"]:
            obligations += 1
            proof_problems.append("theorem %s has no Print Assumptions" % nm)
    else:
        src = vlib.read(os.path.join(vlib.coq_dir(pid), "Properties.v")) if os.path.exists(os.path.join(vlib.coq_dir(pid), "Properties.v")) else ""
        obligations = max(1, len(re.findall(r"Print Assumptions", src)))
        if ok:
            proof_problems.append("Properties.v does not compile: %s" % props["log"][-800:])
    # thorough: independent re-check of the compiled theorems with coqchk, axioms listed
    if tier == "thorough" and props["ok"] and os.environ.get("VERIF_NO_COQCHK") != "1":
        t = time.time()
        d = vlib.coq_dir(pid)
        rc, out, err = vlib.sh(["coqchk", "-o", "-silent"] + vlib.coqproject_args(d) + [pid + ".Properties"], cwd=d, timeout=3000)
        txt = out + err
        summ = txt[txt.find("CONTEXT SUMMARY"):] if "CONTEXT SUMMARY" in txt else txt[-1500:]
        axioms = re.search(r"\* Axioms:(.*?)\n\s*\n\* Constants", summ, re.S)
        coverage["coqchk"] = {"rc": rc, "wall_s": round(time.time() - t, 1),
                              "axioms": re.sub(r"\s+", " ", axioms.group(1)).strip() if axioms else "?",
                              "summary": re.sub(r"[ \t]+", " ", summ)[:1500]}
        if rc != 0:
            proof_problems.append("coqchk rejects %s.Properties: %s" % (pid, txt[-600:]))
        else:
            listed = [a for a in re.findall(r"([A-Za-z0-9_'.]+)\s*$", "", re.M)]
            ax_txt = coverage["coqchk"]["axioms"]
            if ax_txt not in ("<none>", "?"):
                for a in ax_txt.split():
                    if a.strip() and a.strip() not in allowed and a.split(".")[-1] not in allowed:
                        proof_problems.append("coqchk: loaded library axiom %s not in the plugin's allow-list" % a)
    gate = vlib.grep_gate(["Base", pid])
    if gate:
        proof_problems.append("forbidden vernacular: %s" % gate[:5])
    coverage.update({
        "obligations": obligations,
        "discharged": discharged,
        "theorems": thm_report,
        "level_text": dict(getattr(plugin, "MANIFEST_ENTRY", {})).get("text", "proof (see MANIFEST.json)"),
        "obligation_classes": {c: sum(1 for t in thm_report if t.get("class") == c) for c in sorted(set(t.get("class") for t in thm_report))},
        "checker_cmd": "coq_makefile -f coq/%s/_CoqProject && make -k (full .vo build, coqc 8.16.1); coqc Properties.v with Print Assumptions under every theorem" % pid,
        "trusted_base": trusted,
    })

    # 4/5. correspondence
    try:
        cov2 = plugin.correspond(ctx) if hasattr(plugin, "correspond") else {}
        coverage.update(cov2 or {})
        if "unproved" not in coverage and getattr(plugin, "UNPROVED", None):
            coverage["unproved"] = list(plugin.UNPROVED)
    except Exception as ex:
        ctx.note("correspondence crashed: %s" % traceback.format_exc()[-2500:])
        ctx.violation("correspondence-crash", "harness", "correspondence stream could not run: %s" % ex,
                      detail=traceback.format_exc()[-3000:], failing_input=False)

    # 6. broken proof obligations
    if proof_problems:
        found_input = any(v["failing_input"] for v in ctx.violations)
        if hasattr(plugin, "search") and not found_input:
            try:
                plugin.search(ctx, proof_problems)
            except Exception:
                ctx.note("search crashed: %s" % traceback.format_exc()[-1500:])
            found_input = any(v["failing_input"] for v in ctx.violations)
        if not found_input:
            ctx.violation("proof:" + pid, "proof", "proof obligations of %s no longer check" % pid,
                          detail={"no_longer_checks": proof_problems,
                                  "errors": coverage.get("coq_build_errors")}, failing_input=False)
        else:
            ctx.note("proof obligations broken: %s" % proof_problems)
        coverage["proof_problems"] = proof_problems

    return ctx.finish("proof", coverage, assumptions)


if __name__ == "__main__":
    sys.exit(main())
