#!/usr/bin/env python3
"""Common machinery for the /verif checks (see DESIGN.md section 1.2 and FRAMEWORK.md).

Everything here is stdlib-only Python.  A check is driven by tools/check.py which
imports checks/<ID>.py (the per-property plugin) and runs the common pipeline:

  gen -> coq build -> Properties gate (Print Assumptions) -> grep gate ->
  extraction/driver build -> correspondence + property oracle -> known findings ->
  evidence + VIOLATION lines.
"""
import fcntl
import hashlib
import json
import os
import random
import re
import shutil
import subprocess
import sys
import time

VERIF = os.path.dirname(os.path.dirname(os.path.abspath(__file__)))
REPO = os.environ.get("VERIF_REPO", "/repo")
CACHE = os.path.join(VERIF, ".cache")
EVID = os.environ.get("VERIF_EVIDENCE_DIR") or os.path.join(VERIF, "evidence")
REPLAY = os.path.join(EVID, "replay")
NPROC = int(os.environ.get("VERIF_JOBS", "16"))

# axioms of the standard library / Flocq that a theorem may depend on; each property
# plugin lists the subset it allows (empty list = "Closed under the global context").
STDLIB_AXIOMS = {
    "ClassicalDedekindReals.sig_forall_dec",
    "ClassicalDedekindReals.sig_not_dec",
    "FunctionalExtensionality.functional_extensionality_dep",
    "Classical_Prop.classic",
    "functional_extensionality_dep",
    "sig_forall_dec",
    "sig_not_dec",
    "classic",
    "Eqdep.Eq_rect_eq.eq_rect_eq",
    "proof_irrelevance",
    "ProofIrrelevance.proof_irrelevance",
    "JMeq.JMeq_eq",
}


def log(msg):
    sys.stderr.write("[verif] %s\n" % msg)
    sys.stderr.flush()


MAX_OUT = int(os.environ.get("VERIF_MAX_OUT_MB", "400")) * 1024 * 1024


def _run_capped(cmd, cwd, env, input, timeout, mem_mb=None, max_out=None):
    """Run a child with (a) a wall-clock timeout, (b) captured stdout/stderr capped at max_out bytes each
    (the child is killed when it exceeds the cap: a runaway generated program must not exhaust memory),
    (c) optionally an address-space limit (not for sanitizer builds). Returns (rc, out_bytes, err_bytes)."""
    import threading
    import signal
    max_out = max_out or MAX_OUT

    # no preexec_fn: it forces a full fork of this (possibly multi-GB) process for every child; a new
    # session is requested natively and the address-space limit is applied by a prlimit(1) prefix
    if mem_mb:
        lim = ["prlimit", "--as=%d" % (mem_mb * 1024 * 1024), "--core=0", "--"]
        cmd = (" ".join(lim) + " " + cmd) if isinstance(cmd, str) else lim + list(cmd)
    p = subprocess.Popen(cmd, cwd=cwd, env=env, stdin=subprocess.PIPE if input is not None else subprocess.DEVNULL,
                         stdout=subprocess.PIPE, stderr=subprocess.PIPE, shell=isinstance(cmd, str), start_new_session=True)
    bufs = [bytearray(), bytearray()]
    over = [False]

    def killgroup():
        try:
            os.killpg(p.pid, signal.SIGKILL)
        except Exception:
            try:
                p.kill()
            except Exception:
                pass

    def reader(f, i):
        while True:
            b = f.read(65536)
            if not b:
                break
            if len(bufs[i]) < max_out:
                bufs[i] += b
            else:
                over[0] = True
                killgroup()
                break
        try:
            f.close()
        except Exception:
            pass

    def writer():
        try:
            p.stdin.write(input)
        except Exception:
            pass
        try:
            p.stdin.close()
        except Exception:
            pass

    ts = [threading.Thread(target=reader, args=(p.stdout, 0), daemon=True),
          threading.Thread(target=reader, args=(p.stderr, 1), daemon=True)]
    if input is not None:
        ts.append(threading.Thread(target=writer, daemon=True))
    for t in ts:
        t.start()
    timed_out = False
    try:
        p.wait(timeout=timeout)
    except subprocess.TimeoutExpired:
        timed_out = True
        killgroup()
        p.wait()
    for t in ts:
        t.join(5)
    rc = p.returncode
    err = bytes(bufs[1])
    if timed_out:
        rc = 124
        err += b"\nTIMEOUT after %ds" % int(timeout)
    if over[0]:
        rc = 125
        err += b"\nOUTPUT LIMIT exceeded (%d bytes): child killed" % max_out
    return rc, bytes(bufs[0]), err


def sh(cmd, cwd=None, timeout=3600, env=None, input=None, check=False, mem_mb=None, max_out=None):
    """Run a command, return (rc, stdout, stderr) as text. Output is capped (see _run_capped);
    rc 124 = timeout, 125 = output limit exceeded."""
    e = dict(os.environ)
    if env:
        e.update(env)
    if isinstance(input, str):
        input = input.encode("utf8", "surrogateescape")
    rc, out, err = _run_capped(cmd, cwd, e, input, timeout, mem_mb=mem_mb, max_out=max_out)
    out = out.decode("utf8", "replace")
    err = err.decode("utf8", "replace")
    if check and rc != 0:
        raise RuntimeError("command failed (%d): %s\n%s\n%s" % (rc, cmd, out[-4000:], err[-4000:]))
    return rc, out, err


def shb(cmd, cwd=None, timeout=3600, env=None, input=None, mem_mb=None, max_out=None):
    """Binary variant: returns (rc, stdout_bytes, stderr_bytes)."""
    e = dict(os.environ)
    if env:
        e.update(env)
    if isinstance(input, str):
        input = input.encode("utf8", "surrogateescape")
    return _run_capped(cmd, cwd, e, input, timeout, mem_mb=mem_mb, max_out=max_out)


class Lock:
    def __init__(self, name):
        os.makedirs(CACHE, exist_ok=True)
        self.path = os.path.join(CACHE, name + ".lock")

    def __enter__(self):
        self.f = open(self.path, "w")
        fcntl.flock(self.f, fcntl.LOCK_EX)
        return self

    def __exit__(self, *a):
        fcntl.flock(self.f, fcntl.LOCK_UN)
        self.f.close()


def write_if_changed(path, text):
    os.makedirs(os.path.dirname(path), exist_ok=True)
    try:
        with open(path) as f:
            if f.read() == text:
                return False
    except FileNotFoundError:
        pass
    with open(path, "w") as f:
        f.write(text)
    return True


def read(path):
    with open(path, errors="replace") as f:
        return f.read()


def repo_read(rel):
    return read(os.path.join(REPO, rel))


def sha_files(paths):
    h = hashlib.sha256()
    for p in sorted(paths):
        h.update(p.encode())
        try:
            with open(p, "rb") as f:
                h.update(f.read())
        except OSError:
            h.update(b"<missing>")
    return h.hexdigest()


def walk_files(root, exts):
    out = []
    for d, _, fs in os.walk(root):
        for f in fs:
            if f.endswith(exts):
                out.append(os.path.join(d, f))
    return out


# --------------------------------------------------------------------------
# interpreter rebuilt from /repo/src  (DESIGN 1.1 (C))
# --------------------------------------------------------------------------

INTERP_FLAGS = ["-DMAXRECLEVEL=400", "-DLUA_USE_RPMALLOC", "-DNDEBUG", "-std=gnu99",
                "-DLUA_USE_LINUX", "-O2"]


def ensure_interp(extra_defs=(), tag="", cc="gcc", extra_flags=()):
    """Build nelua-lua from REPO/src (cached by content hash of src/ + flags)."""
    src = os.path.join(REPO, "src")
    files = walk_files(src, (".c", ".h", ".lua"))
    key = sha_files(files + [os.path.join(REPO, "Makefile")])
    key = hashlib.sha256((key + repr(extra_defs) + tag + cc + repr(extra_flags)).encode()).hexdigest()[:20]
    d = os.path.join(CACHE, "interp", key)
    exe = os.path.join(d, "nelua-lua")
    with Lock("interp-" + key):
        if os.path.exists(exe):
            try:
                os.utime(d, None)
            except OSError:
                pass
            return exe
        os.makedirs(d, exist_ok=True)
        # the compile command is the repository's own (make -n: nothing is executed or written in REPO),
        # so a change of the Makefile's defines/flags reaches the interpreter the checks run
        cmd = None
        try:
            import shlex
            rcm, mo, me = sh(["make", "-n", "-B", "nelua-lua", "CC=" + cc], cwd=REPO, timeout=120)
            flat = mo.replace("\\\n", " ")
            for line in flat.split("\n"):
                if "-o nelua-lua" in line and "src/" in line:
                    toks = shlex.split(line)
                    i = toks.index("-o")
                    toks[i + 1] = exe + ".tmp"
                    cmd = toks[:1] + list(extra_defs) + list(extra_flags) + toks[1:]
                    break
        except Exception:
            cmd = None
        if cmd is None:
            cs = sorted(f for f in os.listdir(src) if f.endswith(".c"))
            cs = [os.path.join(src, f) for f in cs]
            cs += sorted(os.path.join(src, "lpeglabel", f) for f in os.listdir(os.path.join(src, "lpeglabel")) if f.endswith(".c"))
            cs.append(os.path.join(src, "srpmalloc", "srpmalloc.c"))
            cmd = [cc] + INTERP_FLAGS + list(extra_defs) + list(extra_flags) + ["-I" + os.path.join(src, "lua")] + cs + \
                  ["-o", exe + ".tmp", "-lm", "-ldl", "-Wl,-E"]
        t = time.time()
        rc, out, err = sh(cmd, timeout=900, cwd=REPO)
        if rc != 0:
            raise RuntimeError("interpreter build failed:\n" + err[-3000:])
        os.rename(exe + ".tmp", exe)
        log("built interpreter %s in %.1fs" % (key, time.time() - t))
        # prune interpreters not used for over 3 hours (never the one just built; other keys may be
        # building concurrently under their own lock, so only stale directories are removed)
        root = os.path.join(CACHE, "interp")
        now = time.time()
        for x in os.listdir(root):
            px = os.path.join(root, x)
            try:
                if x != key and now - os.path.getmtime(px) > 3 * 3600:
                    shutil.rmtree(px, ignore_errors=True)
            except OSError:
                pass
    return exe


def lua_env():
    return {"LUA_PATH": os.path.join(REPO, "lualib", "?.lua") + ";;", "LUA_INIT": ""}


def run_lua(script, args=(), input=None, timeout=600, interp=None, cwd=None, mem_mb=None, max_out=None):
    """Run a Lua script under the rebuilt interpreter with /repo/lualib on the path."""
    interp = interp or ensure_interp()
    return sh([interp, script] + list(args), input=input, timeout=timeout, env=lua_env(), cwd=cwd, mem_mb=mem_mb, max_out=max_out)


def nelua(args, input=None, timeout=600, interp=None, cwd=None, env=None, mem_mb=None, max_out=None):
    """Run the real compiler (REPO/nelua.lua) with the rebuilt interpreter."""
    interp = interp or ensure_interp()
    e = lua_env()
    if env:
        e.update(env)
    return sh([interp, "-lnelua", os.path.join(REPO, "nelua.lua")] + list(args), input=input,
              timeout=timeout, env=e, cwd=cwd, mem_mb=mem_mb, max_out=max_out)


def nelua_build(src, out, extra=(), cache_dir=None, timeout=900, interp=None):
    """Compile a .nelua file to a binary with the real compiler. Returns (rc,out,err)."""
    cache_dir = cache_dir or os.path.join(CACHE, "nelua-cache", hashlib.sha1(out.encode()).hexdigest()[:12])
    os.makedirs(cache_dir, exist_ok=True)
    return nelua(["--cache-dir", cache_dir, "-b", "-o", out] + list(extra) + [src], timeout=timeout, interp=interp)


# --------------------------------------------------------------------------
# Coq
# --------------------------------------------------------------------------

_SYNCED = set()


def _repo_suffix():
    return "" if REPO == "/repo" else "@" + hashlib.sha1(os.path.abspath(REPO).encode()).hexdigest()[:10]


def coq_root():
    """Directory holding the Coq sub-projects for this run.  Runs against /repo use /verif/coq itself;
    runs against another REPO (seeded changes, mutation tests) build in a private copy under .cache so
    that they never rewrite the live Gen.v / .vo / drivers (tools/seedrun.py removes it afterwards)."""
    if REPO == "/repo":
        return os.path.join(VERIF, "coq")
    return os.path.join(CACHE, "coq" + _repo_suffix())


def coq_dir(pid):
    root = coq_root()
    d = os.path.join(root, pid)
    live = os.path.join(VERIF, "coq")
    if root != live and os.path.isdir(d) and (root, pid) not in _SYNCED:
        # a private copy left by an earlier run against the same scratch path: refresh its sources
        _SYNCED.add((root, pid))
        with Lock("coqcopy" + _repo_suffix()):
            for sub in ("Base", pid):
                srcd, dstd = os.path.join(live, sub), os.path.join(root, sub)
                if not os.path.isdir(dstd):
                    continue
                for f in os.listdir(srcd):
                    if (f.endswith((".v", ".ml", ".mli")) or f == "_CoqProject") and not f.startswith(("Gen", "model", "zutil", "_Eval_")):
                        a, b = os.path.join(srcd, f), os.path.join(dstd, f)
                        try:
                            if not os.path.exists(b) or open(a, "rb").read() != open(b, "rb").read():
                                shutil.copy(a, b)
                        except OSError:
                            pass
    if root != live and not os.path.isdir(d):
        _SYNCED.add((root, pid))
        with Lock("coqcopy" + _repo_suffix()):
            for sub in ("Base", pid):
                dst = os.path.join(root, sub)
                if not os.path.isdir(dst):
                    os.makedirs(root, exist_ok=True)
                    tmp = dst + ".tmp%d" % os.getpid()
                    shutil.copytree(os.path.join(live, sub), tmp, symlinks=True,
                                    ignore=shutil.ignore_patterns("_Eval_*", "*.tmp*"))
                    os.rename(tmp, dst)
    return d


def _coq_make(d, jobs, timeout):
    """(Re)generate the Makefile from _CoqProject and run make."""
    mk = os.path.join(d, "Makefile.coq")
    cp = os.path.join(d, "_CoqProject")
    if (not os.path.exists(mk)) or os.path.getmtime(mk) < os.path.getmtime(cp):
        sh(["coq_makefile", "-f", "_CoqProject", "-o", "Makefile.coq"], cwd=d, check=True)
    # every single file is limited (a runaway tactic must not hang the check): VERIF_COQC_TIMEOUT seconds
    per_file = os.environ.get("VERIF_COQC_TIMEOUT", "400")
    rc, out, err = sh(["make", "-f", "Makefile.coq", "-k", "-j%d" % jobs, "COQC=timeout %s coqc" % per_file], cwd=d, timeout=timeout)
    return rc, out + "\n" + err


def coq_build(pid, jobs=None, timeout=3000):
    """Build coq/Base and then coq/<pid>. Returns (ok, log)."""
    jobs = jobs or NPROC
    logtxt = ""
    with Lock("coq-Base" + _repo_suffix()):
        rc, l = _coq_make(coq_dir("Base"), jobs, timeout)
        logtxt += l
        if rc != 0:
            return False, logtxt
    if pid == "Base":
        return True, logtxt
    with Lock("coq-" + pid + _repo_suffix()):
        rc, l = _coq_make(coq_dir(pid), jobs, timeout)
        logtxt += l
    return rc == 0, logtxt


def coqproject_args(d):
    args = []
    for line in read(os.path.join(d, "_CoqProject")).splitlines():
        line = line.strip()
        if line.startswith("-Q") or line.startswith("-R"):
            args += line.split()
    return args


THEOREM_RE = re.compile(r"^\s*(Theorem|Lemma|Corollary|Example|Fact)\s+([A-Za-z0-9_']+)", re.M)


def coq_properties(pid, fname="Properties.v", timeout=900):
    """Compile Properties.v on its own, capture the Print Assumptions output.

    Returns dict: ok, theorems=[{name, kind, assumptions:[..]}], log.
    Every `Print Assumptions X.` in the file must follow the theorem X.
    """
    d = coq_dir(pid)
    src = read(os.path.join(d, fname))
    names = [(m.group(1), m.group(2)) for m in THEOREM_RE.finditer(src)]
    printed = re.findall(r"Print Assumptions\s+([A-Za-z0-9_'.]+)\s*\.", src)
    with Lock("coq-" + pid + _repo_suffix()):
        rc, out, err = sh(["coqc"] + coqproject_args(d) + [fname], cwd=d, timeout=timeout)
    res = {"ok": rc == 0, "log": (out + "\n" + err)[-6000:], "theorems": [], "missing_print": []}
    if rc != 0:
        return res
    # split the output per Print Assumptions, in order
    chunks = re.split(r"(?m)^(?=Closed under the global context|Axioms:)", out)
    chunks = [c for c in chunks if c.startswith("Closed under") or c.startswith("Axioms:")]
    for i, nm in enumerate(printed):
        ax = []
        if i < len(chunks) and chunks[i].startswith("Axioms:"):
            for line in chunks[i].splitlines()[1:]:
                m = re.match(r"^([A-Za-z0-9_'.]+)\s*:", line)
                if m:
                    ax.append(m.group(1))
        elif i >= len(chunks):
            ax = ["<no Print Assumptions output>"]
        res["theorems"].append({"name": nm, "assumptions": ax})
    pset = set(printed)
    for kind, nm in names:
        if kind in ("Theorem", "Corollary") and nm not in pset:
            res["missing_print"].append(nm)
    return res


FORBIDDEN_RE = re.compile(
    r"\b(Admitted|admit|Axiom|Axioms|Parameter|Parameters|Conjecture|Conjectures|Admit Obligations|"
    r"Unset Guard Checking|Unset Positivity Checking|Unset Universe Checking|bypass_check|"
    r"type-in-type|impredicative-set|native_compute)\b")


def strip_coq_comments(s):
    out = []
    depth = 0
    i = 0
    n = len(s)
    while i < n:
        if s.startswith("(*", i):
            depth += 1
            i += 2
        elif s.startswith("*)", i) and depth > 0:
            depth -= 1
            i += 2
        else:
            if depth == 0:
                out.append(s[i])
            elif s[i] == "\n":
                out.append("\n")
            i += 1
    return "".join(out)


def grep_gate(pids):
    """Forbidden vernacular anywhere in coq/Base or coq/<pid> (comments stripped).
    Also flags Variable/Hypothesis outside a Section."""
    bad = []
    for pid in pids:
        d = coq_dir(pid)
        for f in sorted(os.listdir(d)):
            if not f.endswith(".v"):
                continue
            txt = strip_coq_comments(read(os.path.join(d, f)))
            depth = 0
            for ln, line in enumerate(txt.splitlines(), 1):
                if FORBIDDEN_RE.search(line):
                    bad.append("%s/%s:%d: %s" % (pid, f, ln, line.strip()[:120]))
                if re.match(r"^\s*Section\s+\w+", line):
                    depth += 1
                elif re.match(r"^\s*End\s+\w+\s*\.", line) and depth > 0:
                    depth -= 1
                if depth == 0 and re.match(r"^\s*(Variable|Variables|Hypothesis|Hypotheses|Context)\b", line):
                    bad.append("%s/%s:%d: %s (outside a Section)" % (pid, f, ln, line.strip()[:120]))
        cp = read(os.path.join(d, "_CoqProject"))
        if re.search(r"type-in-type|impredicative-set|-vos|-vok", cp):
            bad.append("%s/_CoqProject: forbidden flag" % pid)
    return bad


def ocaml_build(pid, driver="driver.ml", out="driver", model="model"):
    """Build the extracted model (coq/<pid>/model.ml, produced by Extract.v) with the driver."""
    d = coq_dir(pid)
    zu = os.path.join(VERIF, "ocaml", "zutil.ml")
    with Lock("coq-" + pid + _repo_suffix()):
        shutil.copy(zu, os.path.join(d, "zutil.ml"))
        rc, o, e = sh(["ocamlfind", "ocamlopt", "-O3", "-w", "-a", "-package", "str", "-linkpkg", model + ".mli", model + ".ml",
                       "zutil.ml", driver, "-o", out], cwd=d, timeout=900)
        if rc != 0:
            rc, o, e = sh(["ocamlfind", "ocamlopt", "-w", "-a", "-package", "str", "-linkpkg", model + ".mli", model + ".ml",
                           "zutil.ml", driver, "-o", out], cwd=d, timeout=900)
    if rc != 0:
        raise RuntimeError("ocaml build failed:\n" + (o + e)[-3000:])
    return os.path.join(d, out)


def coq_eval(pid, body, timeout=600):
    """Evaluate a snippet inside Coq in the property's load path (used by violation search /
    small correspondence streams).  Returns stdout."""
    d = coq_dir(pid)
    tmp = os.path.join(d, "_Eval_%d.v" % os.getpid())
    with open(tmp, "w") as f:
        f.write(body)
    try:
        rc, out, err = sh(["coqc"] + coqproject_args(d) + [os.path.basename(tmp)], cwd=d, timeout=timeout)
    finally:
        for ext in (".v", ".vo", ".vok", ".vos", ".glob"):
            try:
                os.remove(tmp[:-2] + ext)
            except OSError:
                pass
        try:
            os.remove(os.path.join(d, "." + os.path.basename(tmp)[:-2] + ".aux"))
        except OSError:
            pass
    return rc, out, err


# --------------------------------------------------------------------------
# known findings, violations, evidence
# --------------------------------------------------------------------------

def load_known(pid=None):
    """known_findings/<ID>.json: {"property": ID, "findings": [{"key":..., "what":...}], "fixed": ["fixed: property=<id> <commit> <what failed>", ...]}.
    One file per property (so they can be maintained independently); never written by a check."""
    out = {"findings": [], "fixed": []}
    d = os.path.join(VERIF, "known_findings")
    if not os.path.isdir(d):
        return out
    for f in sorted(os.listdir(d)):
        if not f.endswith(".json") or (pid and f != pid + ".json"):
            continue
        j = json.load(open(os.path.join(d, f)))
        for k in j.get("findings", []):
            k.setdefault("property", j.get("property", f[:-5]))
            out["findings"].append(k)
        out["fixed"] += j.get("fixed", [])
    return out


class Ctx:
    """Per-run context handed to the plugin."""

    def __init__(self, pid, tier, seed):
        self.pid = pid
        self.tier = tier
        self.seed = seed
        self.rng = random.Random(seed * 1000003 + int(hashlib.sha1(pid.encode()).hexdigest()[:6], 16))
        self.t0 = time.time()
        self.violations = []      # dicts: key, kind, summary, detail
        self.known_hits = []
        self.notes = []
        self.coverage = {}
        self.assumptions = []
        self.interp = None
        # scratch/cache directory of this property; runs against another REPO (seeded changes,
        # mutation tests) get their own so they never prune or overwrite each other's artefacts
        suffix = _repo_suffix()
        self.work = os.path.join(CACHE, "work", pid + suffix)
        os.makedirs(self.work, exist_ok=True)
        self.known = [k for k in load_known(pid).get("findings", []) if k.get("property") == pid]

    @property
    def thorough(self):
        return self.tier == "thorough"

    def scale(self, quick, thorough):
        return thorough if self.thorough else quick

    def note(self, s):
        self.notes.append(s)
        log("%s: %s" % (self.pid, s))

    def violation(self, key, kind, summary, detail=None, failing_input=True):
        """Record a violation. `key` identifies the specific input/call site/history and is what
        known_findings.json matches on (exact string match on 'key')."""
        for k in self.known:
            if k.get("key") == key:
                if key not in [h["key"] for h in self.known_hits]:
                    self.known_hits.append({"key": key, "what": k.get("what", summary), "summary": summary})
                return False
        self.violations.append({"key": key, "kind": kind, "summary": summary, "detail": detail,
                                "failing_input": failing_input})
        return True

    def finish(self, level, coverage, assumptions):
        os.makedirs(REPLAY, exist_ok=True)
        for h in self.known_hits:
            print("KNOWN-FINDING: property=%s %s" % (self.pid, h["what"]))
        # group violations: one replay file per violation (max 10 lines printed)
        shown = 0
        for i, v in enumerate(self.violations):
            if shown >= 10:
                break
            path = os.path.join(REPLAY, "%s-%s-%d.json" % (self.pid, self.tier, i))
            with open(path, "w") as f:
                json.dump({"property": self.pid, "tier": self.tier, "seed": self.seed, **v}, f, indent=1, default=str)
            tail = "" if v["failing_input"] else " no-failing-input-found"
            print("VIOLATION property=%s replay=%s%s" % (self.pid, path, tail))
            shown += 1
        cov = dict(coverage)
        cov.setdefault("notes", self.notes[-40:])
        cov["known_findings_reproduced"] = [h["key"] for h in self.known_hits]
        ev = {
            "property_id": self.pid,
            "tier": self.tier,
            "seed": self.seed,
            "level": level,
            "coverage": cov,
            "assumptions": assumptions,
            "wall_s": round(time.time() - self.t0, 2),
            "violations": len(self.violations),
        }
        os.makedirs(EVID, exist_ok=True)
        with open(os.path.join(EVID, self.pid + ".json"), "w") as f:
            json.dump(ev, f, indent=1, default=str)
        sys.stdout.flush()
        return 1 if self.violations else 0


def hexz(n):
    """Signed integer -> text accepted by the OCaml drivers (decimal)."""
    return str(n)
