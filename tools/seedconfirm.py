#!/usr/bin/env python3
"""Independently confirm a seeded change produced by a sub-agent and, if confirmed, keep it:

  python3 tools/seedconfirm.py /tmp/seed-C12/seeded/A C12-A

 1. scratch copy of /repo (clean): interpreter built, the demonstration must PASS (exit status 0);
 2. scratch copy with patch.diff applied: builds, the demonstration must FAIL (exit status != 0);
 3. with the patch applied the repository's test suite (make test, private HOME) reports 0 failures.
Only then the seed is copied to /verif/seeded/<name>/ (patch.diff, demonstration files, meta.json
extended with what was run).  Scratch copies are removed.  /repo itself is never modified."""
import json
import os
import re
import shutil
import subprocess
import sys
import time

VERIF = os.path.dirname(os.path.dirname(os.path.abspath(__file__)))


def sh(cmd, cwd, env=None, timeout=1800):
    e = dict(os.environ)
    e.update(env or {})
    p = subprocess.run(cmd, cwd=cwd, env=e, shell=True, stdout=subprocess.PIPE, stderr=subprocess.STDOUT, text=True,
                       errors="replace", timeout=timeout)
    return p.returncode, p.stdout


def demo_command(meta, src_root):
    cmd = meta["demo_cmd"]
    cmd = re.split(r"\s{2,}[(#]", cmd)[0].strip()
    cmd = re.sub(r"^cd\s+\S+\s*&&\s*", "", cmd)
    cmd = cmd.replace(src_root, ".")
    return cmd


def cache_dirs(cmd, ddir):
    txt = cmd
    for f in os.listdir(ddir):
        if f.endswith(".sh"):
            txt += "\n" + open(os.path.join(ddir, f)).read()
    return set(re.findall(r"--cache-dir[= ]\s*(/tmp/[A-Za-z0-9_./-]+)", txt))


def prepare(tag, seed_dir, rel):
    tmp = "/tmp/seedconfirm-%s-%d" % (tag, os.getpid())
    shutil.copytree("/repo", tmp, symlinks=True, ignore=shutil.ignore_patterns(".git", "nelua-lua", "nelua-luac"))
    os.makedirs(os.path.join(tmp, os.path.dirname(rel)), exist_ok=True)
    shutil.copytree(seed_dir, os.path.join(tmp, rel))
    return tmp


def main():
    seed_dir = os.path.abspath(sys.argv[1])
    name = sys.argv[2]
    meta = json.load(open(os.path.join(seed_dir, "meta.json")))
    src_root = os.path.dirname(os.path.dirname(seed_dir))      # /tmp/seed-Cxx
    rel = os.path.relpath(seed_dir, src_root)                   # seeded/A
    cmd = demo_command(meta, src_root)
    caches = cache_dirs(cmd, seed_dir)
    ran = {"demo_cmd_run": cmd}
    ok = True
    clean = patched = None
    try:
        clean = prepare(name + "-clean", seed_dir, rel)
        rc, out = sh("make", clean)
        if rc != 0:
            print("clean build failed", out[-500:]); return 2
        for c in caches:
            shutil.rmtree(c, ignore_errors=True)
        rc, out = sh(cmd, clean, env={"HOME": clean + "-home"})
        ran["clean_demo"] = {"exit": rc, "tail": out[-400:]}
        if rc != 0:
            ok = False
        patched = prepare(name + "-patched", seed_dir, rel)
        rc, out = sh("patch -p1 -s -i %s" % os.path.join(seed_dir, "patch.diff"), patched)
        if rc != 0:
            print("patch does not apply to /repo HEAD:", out[-500:]); return 2
        rc, out = sh("make", patched)
        if rc != 0:
            print("patched build failed", out[-500:]); return 2
        for c in caches:
            shutil.rmtree(c, ignore_errors=True)
        time.sleep(1.1)
        rc, out = sh(cmd, patched, env={"HOME": patched + "-home"})
        ran["patched_demo"] = {"exit": rc, "tail": out[-600:]}
        if rc == 0:
            ok = False
        rc, out = sh("make test 2>&1 | tail -3", patched, env={"HOME": patched + "-home"}, timeout=3600)
        m = re.search(r"(\d+)\S* successes\S* / \S*?(\d+)\S* skipped\S* / \S*?(\d+)\S* failures", re.sub(r"\x1b\[[0-9;]*m", "", out))
        ran["patched_suite"] = re.sub(r"\x1b\[[0-9;]*m", "", out)[-200:].strip()
        if not m or int(m.group(3)) != 0 or int(m.group(1)) < 500:
            ok = False
    finally:
        for t in (clean, patched):
            if t:
                shutil.rmtree(t, ignore_errors=True)
                shutil.rmtree(t + "-home", ignore_errors=True)
        for c in caches:
            shutil.rmtree(c, ignore_errors=True)
    print(json.dumps({"seed": name, "confirmed": ok, **ran}, indent=1))
    if ok:
        dst = os.path.join(VERIF, "seeded", name)
        shutil.rmtree(dst, ignore_errors=True)
        shutil.copytree(seed_dir, dst)
        meta["confirmed_by_coordinator"] = ran
        meta["confirmed_against_repo_commit"] = subprocess.run(["git", "-C", "/repo", "rev-parse", "--short", "HEAD"], stdout=subprocess.PIPE, text=True).stdout.strip()
        json.dump(meta, open(os.path.join(dst, "meta.json"), "w"), indent=1)
    return 0 if ok else 1


if __name__ == "__main__":
    sys.exit(main())
