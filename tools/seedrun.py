#!/usr/bin/env python3
"""Run a property's check against a scratch copy of /repo with a seeded change applied.

  python3 tools/seedrun.py seeded/<name> [quick|thorough]

The copy lives under /tmp/seedrun-<name>-<pid> and is removed afterwards; /repo is never touched
and the real evidence files are not overwritten (VERIF_EVIDENCE_DIR points to a scratch dir).
Prints the check's VIOLATION lines and exit status; exit 0 iff the check caught the change."""
import json
import os
import shutil
import subprocess
import sys

VERIF = os.path.dirname(os.path.dirname(os.path.abspath(__file__)))


def main():
    d = os.path.abspath(sys.argv[1])
    tier = sys.argv[2] if len(sys.argv) > 2 else "quick"
    meta = json.load(open(os.path.join(d, "meta.json")))
    pid = meta["property"]
    name = os.path.basename(d)
    tmp = "/tmp/seedrun-%s-%d" % (name, os.getpid())
    evid = tmp + "-evidence"
    try:
        shutil.copytree("/repo", tmp, symlinks=True, ignore=shutil.ignore_patterns(".git"))
        r = subprocess.run(["patch", "-p1", "-s", "-i", os.path.join(d, "patch.diff")], cwd=tmp)
        if r.returncode != 0:
            print("patch does not apply")
            return 2
        env = dict(os.environ, VERIF_REPO=tmp, VERIF_EVIDENCE_DIR=evid)
        p = subprocess.run([sys.executable, os.path.join(VERIF, "tools", "check.py"), pid, tier], cwd=VERIF, env=env,
                           stdout=subprocess.PIPE, stderr=subprocess.PIPE, text=True)
        lines = [l for l in p.stdout.splitlines() if l.startswith(("VIOLATION", "KNOWN-FINDING"))]
        print("\n".join(lines))
        print("check exit status: %d" % p.returncode)
        caught = p.returncode == 1 and any(l.startswith("VIOLATION") for l in lines)
        concrete = any(l.startswith("VIOLATION") and not l.rstrip().endswith("no-failing-input-found") for l in lines)
        first = None
        for l in lines:
            if l.startswith("VIOLATION"):
                path = l.split("replay=")[1].split()[0]
                try:
                    first = json.load(open(path)).get("summary")
                except Exception:
                    pass
                break
        print(json.dumps({"seed": name, "property": pid, "tier": tier, "caught": caught, "concrete_failing_input": concrete,
                          "first_violation": first}))
        return 0 if caught else 1
    finally:
        shutil.rmtree(tmp, ignore_errors=True)
        shutil.rmtree(evid, ignore_errors=True)
        import hashlib
        suffix = "@" + hashlib.sha1(os.path.abspath(tmp).encode()).hexdigest()[:10]
        shutil.rmtree(os.path.join(VERIF, ".cache", "work", pid + suffix), ignore_errors=True)
        shutil.rmtree(os.path.join(VERIF, ".cache", "coq" + suffix), ignore_errors=True)


if __name__ == "__main__":
    sys.exit(main())
