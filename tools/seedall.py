#!/usr/bin/env python3
"""Run every seeded change (seeded/*/) against its property's check (scratch copies, 4 at a time) and
write seeded/RESULTS.json: which checks catch which changes."""
import json, os, subprocess, sys, time
from concurrent.futures import ThreadPoolExecutor
V = os.path.dirname(os.path.dirname(os.path.abspath(__file__)))
tier = sys.argv[1] if len(sys.argv) > 1 else "quick"
only = sys.argv[2:]
names = sorted(d for d in os.listdir(os.path.join(V, "seeded")) if os.path.isdir(os.path.join(V, "seeded", d)))
if only: names = [n for n in names if n in only or n.split("-")[0] in only]
def one(n):
    if not os.path.exists(os.path.join(V, "checks", n.split("-")[0] + ".py")):
        return n, {"seed": n, "caught": False, "note": "no check for this property yet"}
    t = time.time()
    p = subprocess.run([sys.executable, os.path.join(V, "tools", "seedrun.py"), os.path.join(V, "seeded", n), tier], cwd=V,
                       stdout=subprocess.PIPE, stderr=subprocess.PIPE, text=True)
    last = [l for l in p.stdout.splitlines() if l.startswith("{")]
    r = json.loads(last[-1]) if last else {"seed": n, "caught": False, "note": "seedrun failed: " + (p.stdout + p.stderr)[-300:]}
    r["wall_s"] = round(time.time() - t)
    return n, r
res = {}
with ThreadPoolExecutor(max_workers=4) as ex:
    for n, r in ex.map(one, names):
        res[n] = r
        print(n, "CAUGHT" if r.get("caught") else "MISSED", "concrete" if r.get("concrete_failing_input") else "-", (r.get("first_violation") or r.get("note") or "")[:160], flush=True)
path = os.path.join(V, "seeded", "RESULTS.json")
old = json.load(open(path)) if os.path.exists(path) else {}
old.update(res)
json.dump(old, open(path, "w"), indent=1)
