#!/usr/bin/env python3
"""Run every plugin's quick check (4 at a time) and print one summary line each."""
import json, os, subprocess, sys, time
from concurrent.futures import ThreadPoolExecutor
V = os.path.dirname(os.path.dirname(os.path.abspath(__file__)))
tier = sys.argv[1] if len(sys.argv) > 1 else "quick"
only = sys.argv[2:]
pids = sorted(f[:-3] for f in os.listdir(os.path.join(V, "checks")) if f.startswith("C") and f.endswith(".py"))
if only: pids = [p for p in pids if p in only]
def one(pid):
    t = time.time()
    p = subprocess.run([sys.executable, os.path.join(V, "tools", "check.py"), pid, tier], cwd=V, stdout=subprocess.PIPE, stderr=subprocess.PIPE, text=True)
    dt = time.time() - t
    lines = [l for l in p.stdout.splitlines() if l.startswith(("VIOLATION", "KNOWN-FINDING"))]
    try:
        e = json.load(open(os.path.join(V, "evidence", pid + ".json"))); c = e["coverage"]
        info = "obl=%s/%s eval=%s" % (c.get("discharged"), c.get("obligations"), c.get("evaluations"))
    except Exception as ex:
        info = "no evidence (%s)" % ex
    return "%s rc=%d %.0fs %s | %s" % (pid, p.returncode, dt, info, "; ".join(l[:110] for l in lines[:4]))
with ThreadPoolExecutor(max_workers=4) as ex:
    for r in ex.map(one, pids): print(r, flush=True)
