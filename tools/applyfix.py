import re, subprocess, sys, os
def msg_of(path):
    lines = open(path, errors='replace').read().split('\n')
    hdr = []
    for l in lines:
        if not l.startswith('#'): break
        hdr.append(re.sub(r'^#\s{0,3}', '', l).rstrip())
    out = []; on = False
    for l in hdr:
        if not on:
            if l.strip().startswith('fix:'): on = True; out.append(l.strip())
            continue
        if re.match(r'\s*(witness|suite|repairs|changed lines|note|apply|not addressed|keys|known)', l, re.I): break
        out.append(l)
    while out and not out[-1].strip(): out.pop()
    return '\n'.join(out).strip()
ok = []
for p in sys.argv[1:]:
    p = os.path.abspath(p)
    m = msg_of(p)
    if not m.startswith('fix:'):
        print('NO MESSAGE', p, repr(m[:80])); continue
    r = subprocess.run(['git', '-C', '/repo', 'apply', '--recount', p], capture_output=True, text=True)
    if r.returncode != 0:
        r = subprocess.run(['patch', '-p1', '-s', '-d', '/repo', '-i', p], capture_output=True, text=True)
        if r.returncode != 0:
            print('DOES NOT APPLY', p, (r.stdout + r.stderr)[-300:]); 
            subprocess.run('cd /repo && git checkout -- . && git clean -fdq -e nelua-lua -e nelua-luac', shell=True)
            continue
    subprocess.run('cd /repo && find . -name "*.orig" -delete; find . -name "*.rej" -delete', shell=True)
    r = subprocess.run(['git', '-C', '/repo', 'commit', '-qam', m], capture_output=True, text=True)
    h = subprocess.run(['git', '-C', '/repo', 'rev-parse', '--short', 'HEAD'], capture_output=True, text=True).stdout.strip()
    print('APPLIED', h, os.path.basename(os.path.dirname(os.path.dirname(p))), os.path.basename(p), '|', m.split('\n')[0][:90])
