(* Glue between text and the extracted binary integers (Model.positive / Model.z / Model.n /
   Model.nat).  No Extract Constant is used: the extracted datatypes stay Coq's inductives and
   this file only converts hexadecimal text to and from them.
   Text format: optional '-' then hex digits (no 0x prefix), e.g. "-1f", "0", "deadbeef". *)
open Model

let hexval c =
  match c with
  | '0' .. '9' -> Char.code c - 48
  | 'a' .. 'f' -> Char.code c - 87
  | 'A' .. 'F' -> Char.code c - 55
  | _ -> failwith ("bad hex digit " ^ String.make 1 c)

(* positive from a list of bits, most significant first, first bit is 1 *)
let pos_of_bits_msb (bits : bool list) : positive =
  match bits with
  | [] -> failwith "pos_of_bits"
  | _ :: rest -> List.fold_left (fun acc b -> if b then XI acc else XO acc) XH rest

let bits_of_hex (s : string) : bool list =
  let l = ref [] in
  String.iter
    (fun c ->
      let v = hexval c in
      l := ((v land 1) <> 0) :: ((v land 2) <> 0) :: ((v land 4) <> 0) :: ((v land 8) <> 0) :: !l)
    s;
  (* !l is lsb-first reversed... rebuild msb-first *)
  let msb = List.rev !l in
  (* each nibble was pushed as b0::b1::b2::b3 onto the front, so reversing gives b3 b2 b1 b0 per nibble *)
  let rec strip = function false :: r -> strip r | x -> x in
  strip msb

let n_of_hex (s : string) : n =
  match bits_of_hex s with [] -> N0 | bits -> Npos (pos_of_bits_msb bits)

let z_of_hex (s : string) : z =
  let neg = String.length s > 0 && s.[0] = '-' in
  let body = if neg then String.sub s 1 (String.length s - 1) else s in
  match bits_of_hex body with
  | [] -> Z0
  | bits -> if neg then Zneg (pos_of_bits_msb bits) else Zpos (pos_of_bits_msb bits)

let rec bits_lsb_of_pos (p : positive) : bool list =
  match p with XH -> [ true ] | XO q -> false :: bits_lsb_of_pos q | XI q -> true :: bits_lsb_of_pos q

let hex_of_pos (p : positive) : string =
  let bits = Array.of_list (bits_lsb_of_pos p) in
  let nb = Array.length bits in
  let nn = (nb + 3) / 4 in
  let b = Bytes.create nn in
  for i = 0 to nn - 1 do
    let v = ref 0 in
    for j = 0 to 3 do
      let k = (i * 4) + j in
      if k < nb && bits.(k) then v := !v lor (1 lsl j)
    done;
    Bytes.set b (nn - 1 - i) "0123456789abcdef".[!v]
  done;
  Bytes.to_string b

let hex_of_n (x : n) : string = match x with N0 -> "0" | Npos p -> hex_of_pos p
let hex_of_z (x : z) : string = match x with Z0 -> "0" | Zpos p -> hex_of_pos p | Zneg p -> "-" ^ hex_of_pos p

let rec nat_of_int (i : int) : nat = if i <= 0 then O else S (nat_of_int (i - 1))
let rec int_of_nat (x : nat) : int = match x with O -> 0 | S y -> 1 + int_of_nat y

let rec int_of_pos (p : positive) : int =
  match p with XH -> 1 | XO q -> 2 * int_of_pos q | XI q -> (2 * int_of_pos q) + 1

let int_of_z (x : z) : int = match x with Z0 -> 0 | Zpos p -> int_of_pos p | Zneg p -> -int_of_pos p
let int_of_n (x : n) : int = match x with N0 -> 0 | Npos p -> int_of_pos p

let rec pos_of_int (i : int) : positive =
  if i <= 1 then XH else if i land 1 = 0 then XO (pos_of_int (i lsr 1)) else XI (pos_of_int (i lsr 1))

let z_of_int (i : int) : z = if i = 0 then Z0 else if i > 0 then Zpos (pos_of_int i) else Zneg (pos_of_int (-i))
let n_of_int (i : int) : n = if i <= 0 then N0 else Npos (pos_of_int i)

(* lists of small integers (bytes) as comma separated decimal or as a hex string *)
let zlist_of_hexbytes (s : string) : z list =
  let n = String.length s / 2 in
  List.init n (fun i -> z_of_int ((hexval s.[2 * i] * 16) + hexval s.[(2 * i) + 1]))

let hexbytes_of_zlist (l : z list) : string =
  String.concat "" (List.map (fun x -> Printf.sprintf "%02x" (int_of_z x land 255)) l)

let split_ws (s : string) : string list = List.filter (fun x -> x <> "") (String.split_on_char ' ' s)

let iter_lines (f : string -> unit) : unit =
  try
    while true do
      f (input_line stdin)
    done
  with End_of_file -> ()
